/-
  Helper lemmas for the gate / merge model (used by Props/C03, Props/C05; later C01, C13).
  `GateInv` is the invariant every gate operation preserves: the store is coherent (`Ktn.Inv`),
  no stored minimum matches an earlier stored one, no two stored transition states match.
-/
import TopSearch.Model.Merge
import TopSearch.Lemmas.Ktn

namespace TopSearch.Merge
open TopSearch TopSearch.Ktn
variable {δ : Type}

/-! ### look-up by label -/

theorem find_congr' {α : Type} {l : List α} {p q : α → Bool} (h : ∀ x ∈ l, p x = q x) :
    l.find? p = l.find? q := by
  induction l with
  | nil => rfl
  | cons a l ih =>
    rw [List.find?_cons, List.find?_cons, h a (by simp), ih (fun x hx => h x (by simp [hx]))]

theorem find_label {l : List (Node δ)} (hn : (l.map (·.label)).Nodup) {nd : Node δ} (h : nd ∈ l) :
    l.find? (fun x => x.label == nd.label) = some nd := by
  induction l with
  | nil => simp at h
  | cons a l ih =>
    simp only [List.map_cons, List.nodup_cons] at hn
    rcases List.mem_cons.1 h with rfl | h'
    · simp
    · have hne : (a.label == nd.label) = false := by
        cases hb : a.label == nd.label
        · rfl
        · exfalso
          have : a.label = nd.label := by simpa using hb
          exact hn.1 (this ▸ List.mem_map_of_mem h')
      rw [List.find?_cons, hne]
      exact ih hn.2 h'

theorem labels_nodup {s : Ktn δ} (hs : Inv s) : (s.nodes.map (·.label)).Nodup := by
  rw [hs.1]; exact List.nodup_range

theorem nodeData_of_mem {s : Ktn δ} (hs : Inv s) {nd : Node δ} (h : nd ∈ s.nodes) :
    s.nodeData? nd.label = some nd.data := by
  simp [nodeData?, find_label (labels_nodup hs) h]

theorem label_lt {s : Ktn δ} (hs : Inv s) {nd : Node δ} (h : nd ∈ s.nodes) : nd.label < s.nMin := by
  have : nd.label ∈ s.nodes.map (·.label) := List.mem_map_of_mem h
  rw [hs.1] at this; simpa using this

theorem mem_of_nodeData {s : Ktn δ} {a : Nat} {x : δ} (h : s.nodeData? a = some x) :
    ∃ nd ∈ s.nodes, nd.label = a ∧ nd.data = x := by
  simp only [nodeData?, Option.map_eq_some_iff] at h
  obtain ⟨nd, hf, hd⟩ := h
  exact ⟨nd, List.mem_of_find?_eq_some hf, by simpa using List.find?_some hf, hd⟩

/-- the linear scan of `is_new_minimum` written on the node list -/
def scanMin (same : δ → δ → Bool) (s : Ktn δ) (d : δ) : Option (Node δ) :=
  s.nodes.find? (fun nd => same d nd.data)

theorem isNewMinimum_eq_scan (same : δ → δ → Bool) {s : Ktn δ} (hs : Inv s) (d : δ) :
    isNewMinimum same s d = (scanMin same s d).map (·.label) := by
  unfold isNewMinimum scanMin
  rw [← hs.1, List.find?_map]
  congr 1
  apply find_congr'
  intro nd hnd
  simp [Function.comp, nodeData_of_mem hs hnd]

theorem isNewMinimum_none {same : δ → δ → Bool} {s : Ktn δ} (hs : Inv s) {d : δ}
    (h : isNewMinimum same s d = none) : ∀ nd ∈ s.nodes, same d nd.data = false := by
  rw [isNewMinimum_eq_scan same hs] at h
  simp only [scanMin, Option.map_eq_none_iff, List.find?_eq_none] at h
  intro nd hnd; simpa using h nd hnd

theorem isNewMinimum_some {same : δ → δ → Bool} {s : Ktn δ} (hs : Inv s) {d : δ} {i : Nat}
    (h : isNewMinimum same s d = some i) :
    ∃ nd ∈ s.nodes, nd.label = i ∧ same d nd.data = true ∧ i < s.nMin ∧
      s.nodeData? i = some nd.data := by
  rw [isNewMinimum_eq_scan same hs] at h
  simp only [scanMin, Option.map_eq_some_iff] at h
  obtain ⟨nd, hf, rfl⟩ := h
  have hm := List.mem_of_find?_eq_some hf
  exact ⟨nd, hm, rfl, by simpa using List.find?_some hf, label_lt hs hm, nodeData_of_mem hs hm⟩

/-- the first match: every earlier stored minimum does not match -/
theorem isNewMinimum_first {same : δ → δ → Bool} {s : Ktn δ} (hs : Inv s) {d : δ} {i : Nat}
    (h : isNewMinimum same s d = some i) :
    ∀ j, j < i → ∀ x, s.nodeData? j = some x → same d x = false := by
  intro j hj x hx
  unfold isNewMinimum at h
  have := List.find?_eq_some_iff_append.1 h
  obtain ⟨_, as, bs, hsplit, hnone⟩ := this
  have hjm : j ∈ as := by
    have hsorted : (List.range s.nMin).Pairwise (· < ·) := List.pairwise_lt_range
    have hjr : j ∈ List.range s.nMin := by
      have := (isNewMinimum_some hs (by unfold isNewMinimum; exact h)).choose_spec.2.2.2.1
      simp; omega
    rw [hsplit] at hjr hsorted
    rcases List.mem_append.1 hjr with h1 | h1
    · exact h1
    · exfalso
      rw [List.pairwise_append] at hsorted
      rcases List.mem_cons.1 h1 with rfl | h2
      · omega
      · have := (List.pairwise_cons.1 hsorted.2.1).1 j h2; omega
  have := hnone j hjm
  simpa [hx] using this


/-! ### the gate invariant -/

/-- no stored minimum matches (as a candidate) a minimum stored before it -/
def MinDistinct (same : δ → δ → Bool) (s : Ktn δ) : Prop :=
  s.nodes.Pairwise (fun a b => same b.data a.data = false)

/-- no two stored transition states match, in either direction -/
def TsDistinct (same : δ → δ → Bool) (s : Ktn δ) : Prop :=
  s.edges.Pairwise (fun a b => same b.data a.data = false ∧ same a.data b.data = false)

structure GateInv (same : δ → δ → Bool) (s : Ktn δ) : Prop where
  inv : Inv s
  mins : MinDistinct same s
  tss : TsDistinct same s

theorem gateInv_empty (same : δ → δ → Bool) : GateInv same (empty : Ktn δ) :=
  ⟨inv_empty, by simp [MinDistinct, empty], by simp [TsDistinct, empty]⟩

theorem gateInv_reset (same : δ → δ → Bool) (s : Ktn δ) : GateInv same s.reset :=
  gateInv_empty same

/-- candidate `d` is represented by the stored minimum `i`: that minimum is `d` itself or a
    point `d` matches -/
def Rep (same : δ → δ → Bool) (s : Ktn δ) (i : Nat) (d : δ) : Prop :=
  ∃ x, s.nodeData? i = some x ∧ (x = d ∨ same d x = true)

/-- nothing removed, nothing renumbered: old nodes are a prefix (labels and data identical), the
    history is a prefix, every connected pair stays connected and its transition state is the old
    one or one satisfying `T` (instantiated with "was offered in between") -/
structure Mono (T : δ → Prop) (s s' : Ktn δ) : Prop where
  nodes : ∃ extra, s'.nodes = s.nodes ++ extra
  nMin : s.nMin ≤ s'.nMin
  hist : ∃ extra, s'.pairlist = s.pairlist ++ extra
  edges : ∀ a b x, s.edgeData? a b = some x → ∃ y, s'.edgeData? a b = some y ∧ (y = x ∨ T y)

theorem Mono.refl (T : δ → Prop) (s : Ktn δ) : Mono T s s :=
  ⟨⟨[], by simp⟩, Nat.le_refl _, ⟨[], by simp⟩, fun _ _ x h => ⟨x, h, Or.inl rfl⟩⟩

theorem Mono.trans {T : δ → Prop} {s s' s'' : Ktn δ} (h1 : Mono T s s') (h2 : Mono T s' s'') :
    Mono T s s'' := by
  obtain ⟨e1, he1⟩ := h1.nodes
  obtain ⟨e2, he2⟩ := h2.nodes
  obtain ⟨p1, hp1⟩ := h1.hist
  obtain ⟨p2, hp2⟩ := h2.hist
  refine ⟨⟨e1 ++ e2, by rw [he2, he1, List.append_assoc]⟩, Nat.le_trans h1.nMin h2.nMin,
    ⟨p1 ++ p2, by rw [hp2, hp1, List.append_assoc]⟩, ?_⟩
  intro a b x hx
  obtain ⟨y, hy, hyx⟩ := h1.edges a b x hx
  obtain ⟨z, hz, hzy⟩ := h2.edges a b y hy
  refine ⟨z, hz, ?_⟩
  rcases hzy with rfl | hT
  · exact hyx
  · exact Or.inr hT

theorem Mono.weaken {T T' : δ → Prop} (hT : ∀ y, T y → T' y) {s s' : Ktn δ} (h : Mono T s s') :
    Mono T' s s' :=
  ⟨h.nodes, h.nMin, h.hist, fun a b x hx => by
    obtain ⟨y, hy, hyx⟩ := h.edges a b x hx
    exact ⟨y, hy, hyx.imp id (hT y)⟩⟩

theorem nodeData_mono {s s' : Ktn δ} (h : ∃ extra, s'.nodes = s.nodes ++ extra) {a : Nat} {x : δ}
    (hx : s.nodeData? a = some x) : s'.nodeData? a = some x := by
  obtain ⟨extra, he⟩ := h
  simp only [nodeData?, Option.map_eq_some_iff] at hx ⊢
  obtain ⟨nd, hf, hd⟩ := hx
  exact ⟨nd, by rw [he, List.find?_append, hf]; rfl, hd⟩

theorem Rep.mono {same : δ → δ → Bool} {s s' : Ktn δ} (h : ∃ extra, s'.nodes = s.nodes ++ extra)
    {i : Nat} {d : δ} (hr : Rep same s i d) : Rep same s' i d := by
  obtain ⟨x, hx, hd⟩ := hr
  exact ⟨x, nodeData_mono h hx, hd⟩

theorem mem_mono {s s' : Ktn δ} (h : ∃ extra, s'.nodes = s.nodes ++ extra) {nd : Node δ}
    (hm : nd ∈ s.nodes) : nd ∈ s'.nodes := by
  obtain ⟨extra, he⟩ := h
  rw [he]; exact List.mem_append_left _ hm

theorem hasEdge_eq_isSome (s : Ktn δ) (a b : Nat) : s.hasEdge a b = (s.edgeData? a b).isSome := by
  rw [Bool.eq_iff_iff]
  simp [hasEdge, edgeData?]

theorem edgeData_congr {s s' : Ktn δ} (h : s'.edges = s.edges) (a b : Nat) :
    s'.edgeData? a b = s.edgeData? a b := by
  simp [edgeData?, h]

theorem nodeData_congr {s s' : Ktn δ} (h : s'.nodes = s.nodes) (a : Nat) :
    s'.nodeData? a = s.nodeData? a := by
  simp [nodeData?, h]

/-! ### single gate steps -/

theorem testNewMinimum_of_some {same : δ → δ → Bool} {s : Ktn δ} {d : δ} {i : Nat}
    (h : isNewMinimum same s d = some i) : testNewMinimum same s d = s := by
  simp [testNewMinimum, h]

theorem testNewMinimum_of_none {same : δ → δ → Bool} {s : Ktn δ} {d : δ}
    (h : isNewMinimum same s d = none) : testNewMinimum same s d = s.addMin d := by
  simp [testNewMinimum, h]

theorem gateInv_addMin {same : δ → δ → Bool} {s : Ktn δ} (hs : GateInv same s) {d : δ}
    (h : isNewMinimum same s d = none) : GateInv same (s.addMin d) := by
  have hnone := isNewMinimum_none hs.inv h
  refine ⟨inv_addMin hs.inv d, ?_, ?_⟩
  · unfold MinDistinct
    rw [addMin_eq hs.inv]
    simp only [List.pairwise_append, List.pairwise_cons, List.mem_singleton]
    refine ⟨hs.mins, ⟨by simp, List.Pairwise.nil⟩, ?_⟩
    intro a ha b hb; subst hb; exact hnone a ha
  · unfold TsDistinct
    rw [addMin_eq hs.inv]
    exact hs.tss

theorem mono_addMin (T : δ → Prop) {s : Ktn δ} (hs : Inv s) (d : δ) : Mono T s (s.addMin d) := by
  rw [addMin_eq hs]
  exact ⟨⟨[⟨s.nMin, d⟩], rfl⟩, Nat.le_succ _, ⟨[], by simp⟩, fun _ _ x h => ⟨x, h, Or.inl rfl⟩⟩

theorem lookupOrInsert_spec {same : δ → δ → Bool} {s : Ktn δ} (hs : GateInv same s) (d : δ) :
    GateInv same (lookupOrInsert same s d).1 ∧
    (lookupOrInsert same s d).2 < (lookupOrInsert same s d).1.nMin ∧
    (lookupOrInsert same s d).1.edges = s.edges ∧
    (lookupOrInsert same s d).1.nTs = s.nTs ∧
    (lookupOrInsert same s d).1.pairlist = s.pairlist ∧
    (∃ extra, (lookupOrInsert same s d).1.nodes = s.nodes ++ extra) ∧
    s.nMin ≤ (lookupOrInsert same s d).1.nMin ∧
    Rep same (lookupOrInsert same s d).1 (lookupOrInsert same s d).2 d := by
  unfold lookupOrInsert
  cases h : isNewMinimum same s d with
  | some i =>
    obtain ⟨nd, _, _, hsame, hlt, hdata⟩ := isNewMinimum_some hs.inv h
    exact ⟨hs, hlt, rfl, rfl, rfl, ⟨[], by simp⟩, Nat.le_refl _, ⟨nd.data, hdata, Or.inr hsame⟩⟩
  | none =>
    have hm := mono_addMin (fun _ => False) hs.inv d
    have hnd := nodeData_addMin hs.inv d
    simp only
    rw [addMin_eq hs.inv] at *
    refine ⟨?_, ?_, rfl, rfl, rfl, ⟨[⟨s.nMin, d⟩], rfl⟩, Nat.le_succ _, ⟨d, ?_, Or.inl rfl⟩⟩
    · have := gateInv_addMin hs h
      rwa [addMin_eq hs.inv] at this
    · simp
    · simpa using hnd.1

theorem isNewTs_true {same : δ → δ → Bool} {s : Ktn δ} {d : δ} (h : isNewTs same s d = true) :
    ∀ e ∈ s.edges, same d e.data = false := by
  intro e he
  simp only [isNewTs, Bool.not_eq_true', List.any_eq_false] at h
  simpa using h e he

theorem isNewTs_false {same : δ → δ → Bool} {s : Ktn δ} {d : δ} (h : isNewTs same s d = false) :
    ∃ e ∈ s.edges, same d e.data = true := by
  simpa [isNewTs] using h

theorem pairwise_replace {same : δ → δ → Bool} (hsym : ∀ x y, same x y = same y x) (d : δ) (u v : Nat) :
    ∀ (l : List (Edge δ)), l.Pairwise (fun a b => Edge.joins a b.u b.v = false) →
      l.Pairwise (fun a b => same b.data a.data = false ∧ same a.data b.data = false) →
      (∀ e ∈ l, same d e.data = false) →
      (l.map (fun e => if Edge.joins e u v then { e with data := d } else e)).Pairwise
        (fun a b => same b.data a.data = false ∧ same a.data b.data = false) := by
  intro l
  induction l with
  | nil => intro _ _ _; simp
  | cons a l ih =>
    intro hj hd hnew
    rw [List.pairwise_cons] at hj hd
    rw [List.map_cons, List.pairwise_cons]
    refine ⟨?_, ih hj.2 hd.2 (fun e he => hnew e (by simp [he]))⟩
    intro b' hb'
    simp only [List.mem_map] at hb'
    obtain ⟨b, hb, rfl⟩ := hb'
    have hdb := hnew b (by simp [hb])
    have hda := hnew a (by simp)
    by_cases ha : Edge.joins a u v = true
    · have hbj : Edge.joins b u v = false := by
        cases hx : Edge.joins b u v
        · rfl
        · have := hj.1 b hb
          rw [joins_trans ha hx] at this; exact absurd this (by simp)
      simp only [ha, hbj, if_true]
      exact ⟨by rw [hsym]; exact hdb, hdb⟩
    · have ha' : Edge.joins a u v = false := by simpa using ha
      simp only [ha']
      by_cases hbj : Edge.joins b u v = true
      · simp only [hbj, if_true]
        exact ⟨hda, by rw [hsym]; exact hda⟩
      · have hbj' : Edge.joins b u v = false := by simpa using hbj
        simp only [hbj']
        exact hd.1 b hb

theorem tsDistinct_addTs {same : δ → δ → Bool} (hsym : ∀ x y, same x y = same y x) {s : Ktn δ}
    (hi : Inv s) (ht : TsDistinct same s) {d : δ} (hnew : ∀ e ∈ s.edges, same d e.data = false)
    (c : Bool) (u v : Nat) : TsDistinct same (s.addTs c d u v) := by
  unfold TsDistinct addTs
  split
  · exact pairwise_replace hsym d u v s.edges hi.2.2.1 ht hnew
  · simp only [List.pairwise_append, List.pairwise_cons, List.mem_singleton]
    refine ⟨ht, ⟨by simp, List.Pairwise.nil⟩, ?_⟩
    intro a ha b hb; subst hb
    exact ⟨hnew a ha, by rw [hsym]; exact hnew a ha⟩

theorem edgeData_addTs_cases (c : Bool) (s : Ktn δ) (d : δ) (u v a b : Nat) :
    (s.addTs c d u v).edgeData? a b = s.edgeData? a b ∨
      ((s.addTs c d u v).edgeData? a b = some d ∧ Edge.joins (⟨a, b, d⟩ : Edge δ) u v = true) := by
  obtain ⟨h1, h2, _, h4⟩ := edgeData_addTs c s d u v
  cases hj : Edge.joins (⟨a, b, d⟩ : Edge δ) u v
  · exact Or.inl (h4 a b hj)
  · right
    refine ⟨?_, rfl⟩
    simp [Edge.joins] at hj
    rcases hj with ⟨rfl, rfl⟩ | ⟨rfl, rfl⟩
    · exact h1
    · exact h2

theorem mono_addTs (c : Bool) (s : Ktn δ) (d : δ) (u v : Nat) :
    Mono (· = d) s (s.addTs c d u v) := by
  refine ⟨⟨[], by simp [(edgeData_addTs c s d u v).2.2.1]⟩, ?_, ⟨[], ?_⟩, ?_⟩
  · unfold addTs; split <;> exact Nat.le_refl _
  · unfold addTs; split <;> simp
  · intro a b x hx
    rcases edgeData_addTs_cases c s d u v a b with h | ⟨h, _⟩
    · exact ⟨x, by rw [h, hx], Or.inl rfl⟩
    · exact ⟨d, h, Or.inr rfl⟩


theorem mono_of_edges_eq (T : δ → Prop) {s s' : Ktn δ} (hn : ∃ extra, s'.nodes = s.nodes ++ extra)
    (hm : s.nMin ≤ s'.nMin) (hp : s'.pairlist = s.pairlist) (he : s'.edges = s.edges) : Mono T s s' :=
  ⟨hn, hm, ⟨[], by simp [hp]⟩, fun a b x hx => ⟨x, by rw [edgeData_congr he, hx], Or.inl rfl⟩⟩

theorem testNewTs_repeat {same : δ → δ → Bool} {c : Bool} {s : Ktn δ} {r : Rec δ}
    (h : isNewTs same s r.ts = false) : testNewTs same c s r = s := by
  simp [testNewTs, h]

/-- everything one needs to know about merging a record whose transition state is new -/
theorem testNewTs_new_spec {same : δ → δ → Bool} (hsym : ∀ x y, same x y = same y x) {s : Ktn δ}
    (hs : GateInv same s) (r : Rec δ) (h : isNewTs same s r.ts = true) :
    ∃ ip im,
      GateInv same (testNewTs same true s r) ∧
      Mono (· = r.ts) s (testNewTs same true s r) ∧
      Rep same (testNewTs same true s r) ip r.plus ∧
      Rep same (testNewTs same true s r) im r.minus ∧
      (testNewTs same true s r).edgeData? ip im = some r.ts ∧
      (∀ a b, Edge.joins (⟨a, b, r.ts⟩ : Edge δ) ip im = false →
        (testNewTs same true s r).edgeData? a b = s.edgeData? a b) ∧
      ip < (testNewTs same true s r).nMin ∧ im < (testNewTs same true s r).nMin ∧
      (testNewTs same true s r).nMin ≤ s.nMin + 2 ∧
      (isNewMinimum same s r.plus = none → ip = s.nMin) ∧
      (∀ i, isNewMinimum same s r.plus = some i → ip = i) := by
  obtain ⟨A1, A2, A3, _, A5, A6, A7, A8⟩ := lookupOrInsert_spec hs r.plus
  obtain ⟨B1, B2, B3, _, B5, B6, B7, B8⟩ := lookupOrInsert_spec A1 r.minus
  have heq : testNewTs same true s r =
      (lookupOrInsert same (lookupOrInsert same s r.plus).1 r.minus).1.addTs true r.ts
        (lookupOrInsert same s r.plus).2 (lookupOrInsert same (lookupOrInsert same s r.plus).1 r.minus).2 := by
    simp [testNewTs, h]
  rw [heq]
  generalize hA : lookupOrInsert same s r.plus = A at *
  generalize hB : lookupOrInsert same A.1 r.minus = B at *
  have hAlt : A.2 < B.1.nMin := Nat.lt_of_lt_of_le A2 B7
  obtain ⟨_, _, hnodes, _⟩ := edgeData_addTs true B.1 r.ts A.2 B.2
  have hed := edgeData_addTs true B.1 r.ts A.2 B.2
  have hnew : ∀ e ∈ B.1.edges, same r.ts e.data = false := by
    rw [B3, A3]; exact isNewTs_true h
  have hpre : ∃ extra, (B.1.addTs true r.ts A.2 B.2).nodes = B.1.nodes ++ extra := ⟨[], by simp [hnodes]⟩
  have hnm : (B.1.addTs true r.ts A.2 B.2).nMin = B.1.nMin := by unfold addTs; split <;> rfl
  refine ⟨A.2, B.2, ⟨inv_addTs B1.inv r.ts A.2 B.2 hAlt B2, ?_, ?_⟩, ?_, ?_, ?_, hed.1, ?_, ?_, ?_, ?_, ?_, ?_⟩
  · unfold MinDistinct; rw [hnodes]; exact B1.mins
  · exact tsDistinct_addTs hsym B1.inv B1.tss hnew true A.2 B.2
  · have m1 : Mono (· = r.ts) s A.1 := mono_of_edges_eq _ A6 A7 A5 A3
    have m2 : Mono (· = r.ts) A.1 B.1 := mono_of_edges_eq _ B6 B7 B5 B3
    exact (m1.trans m2).trans (mono_addTs true B.1 r.ts A.2 B.2)
  · exact (A8.mono B6).mono hpre
  · exact B8.mono hpre
  · intro a b hab
    rw [hed.2.2.2 a b hab, edgeData_congr B3, edgeData_congr A3]
  · rw [hnm]; exact hAlt
  · rw [hnm]; exact B2
  · rw [hnm]
    have h1 : A.1.nMin ≤ s.nMin + 1 := by
      rw [← hA]; unfold lookupOrInsert
      cases isNewMinimum same s r.plus
      · simp only [addMin]; split <;> simp
      · simp
    have h2 : B.1.nMin ≤ A.1.nMin + 1 := by
      rw [← hB]; unfold lookupOrInsert
      cases isNewMinimum same A.1 r.minus
      · simp only [addMin]; split <;> simp
      · simp
    omega
  · intro hn
    rw [← hA]; unfold lookupOrInsert; rw [hn]
    simp [addMin_eq hs.inv]
  · intro i hi
    rw [← hA]; unfold lookupOrInsert; rw [hi]

theorem testNewTs_spec {same : δ → δ → Bool} (hsym : ∀ x y, same x y = same y x) {s : Ktn δ}
    (hs : GateInv same s) (r : Rec δ) :
    GateInv same (testNewTs same true s r) ∧ Mono (· = r.ts) s (testNewTs same true s r) := by
  cases h : isNewTs same s r.ts
  · rw [testNewTs_repeat h]; exact ⟨hs, Mono.refl _ _⟩
  · obtain ⟨_, _, h1, h2, _⟩ := testNewTs_new_spec hsym hs r h
    exact ⟨h1, h2⟩

theorem testNewMinimum_spec {same : δ → δ → Bool} {s : Ktn δ} (hs : GateInv same s) (d : δ) :
    GateInv same (testNewMinimum same s d) ∧ Mono (fun _ => False) s (testNewMinimum same s d) := by
  cases h : isNewMinimum same s d with
  | some i => rw [testNewMinimum_of_some h]; exact ⟨hs, Mono.refl _ _⟩
  | none => rw [testNewMinimum_of_none h]; exact ⟨gateInv_addMin hs h, mono_addMin _ hs.inv d⟩

/-- after `test_new_minimum` the candidate is represented -/
theorem testNewMinimum_rep {same : δ → δ → Bool} {s : Ktn δ} (hs : GateInv same s) (d : δ) :
    ∃ i, Rep same (testNewMinimum same s d) i d ∧ i < (testNewMinimum same s d).nMin := by
  cases h : isNewMinimum same s d with
  | some i =>
    rw [testNewMinimum_of_some h]
    obtain ⟨nd, _, _, hsame, hlt, hdata⟩ := isNewMinimum_some hs.inv h
    exact ⟨i, ⟨nd.data, hdata, Or.inr hsame⟩, hlt⟩
  | none =>
    rw [testNewMinimum_of_none h]
    refine ⟨s.nMin, ⟨d, (nodeData_addMin hs.inv d).1, Or.inl rfl⟩, ?_⟩
    rw [addMin_eq hs.inv]; simp

/-! ### folds -/

theorem mergeRecs_spec {same : δ → δ → Bool} (hsym : ∀ x y, same x y = same y x) (recs : List (Rec δ)) :
    ∀ {s : Ktn δ}, GateInv same s →
      GateInv same (mergeRecs same true s recs) ∧
      Mono (fun y => ∃ r ∈ recs, y = r.ts) s (mergeRecs same true s recs) := by
  induction recs with
  | nil => intro s hs; exact ⟨hs, Mono.refl _ _⟩
  | cons r recs ih =>
    intro s hs
    obtain ⟨h1, h2⟩ := testNewTs_spec hsym hs r
    obtain ⟨h3, h4⟩ := ih h1
    refine ⟨h3, ?_⟩
    have h2' : Mono (fun y => ∃ r' ∈ r :: recs, y = r'.ts) s (testNewTs same true s r) :=
      h2.weaken (fun y hy => ⟨r, by simp, hy⟩)
    have h4' : Mono (fun y => ∃ r' ∈ r :: recs, y = r'.ts) (testNewTs same true s r)
        (mergeRecs same true (testNewTs same true s r) recs) :=
      h4.weaken (fun y ⟨r', hr', hy⟩ => ⟨r', by simp [hr'], hy⟩)
    exact h2'.trans h4'

theorem foldMin_spec {same : δ → δ → Bool} (mins : List δ) :
    ∀ {s : Ktn δ}, GateInv same s →
      GateInv same (mins.foldl (testNewMinimum same) s) ∧
      Mono (fun _ => False) s (mins.foldl (testNewMinimum same) s) := by
  induction mins with
  | nil => intro s hs; exact ⟨hs, Mono.refl _ _⟩
  | cons d mins ih =>
    intro s hs
    obtain ⟨h1, h2⟩ := testNewMinimum_spec hs d
    obtain ⟨h3, h4⟩ := ih h1
    exact ⟨h3, h2.trans h4⟩

/-- every minimum offered in a fold of `test_new_minimum` is represented at the end -/
theorem foldMin_rep {same : δ → δ → Bool} (mins : List δ) :
    ∀ {s : Ktn δ}, GateInv same s → ∀ d ∈ mins,
      ∃ i, Rep same (mins.foldl (testNewMinimum same) s) i d := by
  induction mins with
  | nil => intro s _ d hd; simp at hd
  | cons d0 mins ih =>
    intro s hs d hd
    obtain ⟨h1, _⟩ := testNewMinimum_spec hs d0
    rcases List.mem_cons.1 hd with rfl | hd'
    · obtain ⟨i, hi, _⟩ := testNewMinimum_rep hs d
      exact ⟨i, hi.mono (foldMin_spec mins h1).2.nodes⟩
    · exact ih h1 d hd'

theorem minimaLoop_fold_fst (same : δ → δ → Bool) (mins : List δ) (acc : Ktn δ × List (Option Nat)) :
    (mins.foldl (fun (acc : Ktn δ × List (Option Nat)) d =>
      let s' := testNewMinimum same acc.1 d
      (s', acc.2 ++ [isNewMinimum same s' d])) acc).1 = mins.foldl (testNewMinimum same) acc.1 := by
  induction mins generalizing acc with
  | nil => rfl
  | cons d mins ih => simp only [List.foldl_cons]; exact ih _

theorem minimaLoop_fst (same : δ → δ → Bool) (mins : List δ) (s : Ktn δ) :
    (minimaLoop same s mins).1 = mins.foldl (testNewMinimum same) s :=
  minimaLoop_fold_fst same mins (s, [])

theorem mergeHistory_prefix (imap : List (Option Nat)) (other : List (Nat × Nat)) :
    ∀ own, ∃ extra, mergeHistory own imap other = own ++ extra := by
  induction other with
  | nil => intro own; exact ⟨[], by simp [mergeHistory]⟩
  | cons p other ih =>
    intro own
    simp only [mergeHistory, List.foldl_cons]
    split
    · rename_i a b _ _
      obtain ⟨extra, he⟩ := ih (own ++ [sortPair (a, b)])
      exact ⟨sortPair (a, b) :: extra, by simp only [mergeHistory] at he; rw [he]; simp⟩
    · exact ih own

theorem mono_setHist (T : δ → Prop) (s : Ktn δ) {pl : List (Nat × Nat)}
    (h : ∃ extra, pl = s.pairlist ++ extra) : Mono T s { s with pairlist := pl } :=
  ⟨⟨[], by simp⟩, Nat.le_refl _, h, fun _ _ x hx => ⟨x, hx, Or.inl rfl⟩⟩

theorem gateInv_setHist {same : δ → δ → Bool} {s : Ktn δ} (hs : GateInv same s)
    (pl : List (Nat × Nat)) : GateInv same { s with pairlist := pl } :=
  ⟨hs.inv, hs.mins, hs.tss⟩

theorem addNetworkRecs_spec {same : δ → δ → Bool} (hsym : ∀ x y, same x y = same y x) {s : Ktn δ}
    (hs : GateInv same s) (mins : List δ) (recs : List (Rec δ)) (hist : List (Nat × Nat)) :
    GateInv same (addNetworkRecs same true s mins recs hist) ∧
    Mono (fun y => ∃ r ∈ recs, y = r.ts) s (addNetworkRecs same true s mins recs hist) ∧
    ∀ d ∈ mins, ∃ i, Rep same (addNetworkRecs same true s mins recs hist) i d := by
  unfold addNetworkRecs
  simp only [minimaLoop_fst]
  obtain ⟨h1, h2⟩ := foldMin_spec (same := same) mins hs
  have h34 := mergeRecs_spec hsym recs h1
  unfold mergeRecs at h34
  obtain ⟨h3, h4⟩ := h34
  refine ⟨gateInv_setHist h3 _, ?_, ?_⟩
  · exact ((h2.weaken (fun _ h => h.elim)).trans h4).trans (mono_setHist _ _ (mergeHistory_prefix _ _ _))
  · intro d hd
    obtain ⟨i, hi⟩ := foldMin_rep mins hs d hd
    exact ⟨i, (hi.mono h4.nodes).mono ⟨[], by simp⟩⟩


/-! ### streams of offers -/

/-- the transition states an offer presents to the gate -/
def Offer.tss : Offer δ → List δ
  | .ts r => [r.ts]
  | .merge _ recs _ => recs.map (·.ts)
  | _ => []

theorem offer_gateInv {same : δ → δ → Bool} (hsym : ∀ x y, same x y = same y x) {s : Ktn δ}
    (hs : GateInv same s) (o : Offer δ) : GateInv same (offer same true s o) := by
  cases o with
  | minimum d => exact (testNewMinimum_spec hs d).1
  | ts r => exact (testNewTs_spec hsym hs r).1
  | failed => exact hs
  | merge mins recs hist => exact (addNetworkRecs_spec hsym hs mins recs hist).1
  | reset => exact gateInv_reset same s

theorem offer_mono {same : δ → δ → Bool} (hsym : ∀ x y, same x y = same y x) {s : Ktn δ}
    (hs : GateInv same s) (o : Offer δ) (hnr : o.isReset = false) :
    Mono (fun y => y ∈ o.tss) s (offer same true s o) := by
  cases o with
  | minimum d => exact (testNewMinimum_spec hs d).2.weaken (fun _ h => h.elim)
  | ts r => exact (testNewTs_spec hsym hs r).2.weaken (fun y hy => by simp [Offer.tss, hy])
  | failed => exact Mono.refl _ _
  | merge mins recs hist =>
    exact (addNetworkRecs_spec hsym hs mins recs hist).2.1.weaken
      (fun y ⟨r, hr, hy⟩ => by simp only [Offer.tss, List.mem_map]; exact ⟨r, hr, hy.symm⟩)
  | reset => simp [Offer.isReset] at hnr

theorem offer_rep {same : δ → δ → Bool} (hsym : ∀ x y, same x y = same y x) {s : Ktn δ}
    (hs : GateInv same s) (o : Offer δ) :
    ∀ d ∈ o.minima, ∃ i, Rep same (offer same true s o) i d := by
  cases o with
  | minimum d =>
    intro d' hd'
    simp only [Offer.minima, List.mem_singleton] at hd'
    subst hd'
    obtain ⟨i, hi, _⟩ := testNewMinimum_rep hs d'
    exact ⟨i, hi⟩
  | merge mins recs hist => exact (addNetworkRecs_spec hsym hs mins recs hist).2.2
  | ts r => intro d hd; simp [Offer.minima] at hd
  | failed => intro d hd; simp [Offer.minima] at hd
  | reset => intro d hd; simp [Offer.minima] at hd

theorem run_gateInv {same : δ → δ → Bool} (hsym : ∀ x y, same x y = same y x) (offers : List (Offer δ)) :
    ∀ {s : Ktn δ}, GateInv same s → GateInv same (run same true s offers) := by
  induction offers with
  | nil => intro s hs; exact hs
  | cons o offers ih => intro s hs; exact ih (offer_gateInv hsym hs o)

theorem run_mono {same : δ → δ → Bool} (hsym : ∀ x y, same x y = same y x) (offers : List (Offer δ)) :
    ∀ {s : Ktn δ}, GateInv same s → (∀ o ∈ offers, o.isReset = false) →
      Mono (fun y => ∃ o ∈ offers, y ∈ o.tss) s (run same true s offers) := by
  induction offers with
  | nil => intro s _ _; exact Mono.refl _ _
  | cons o offers ih =>
    intro s hs hnr
    have h1 := (offer_mono hsym hs o (hnr o (by simp))).weaken
      (T' := fun y => ∃ o' ∈ o :: offers, y ∈ o'.tss) (fun y hy => ⟨o, by simp, hy⟩)
    have h2 := (ih (offer_gateInv hsym hs o) (fun o' ho' => hnr o' (by simp [ho']))).weaken
      (T' := fun y => ∃ o' ∈ o :: offers, y ∈ o'.tss) (fun y ⟨o', ho', hy⟩ => ⟨o', by simp [ho'], hy⟩)
    exact h1.trans h2

theorem run_rep {same : δ → δ → Bool} (hsym : ∀ x y, same x y = same y x) (offers : List (Offer δ)) :
    ∀ {s : Ktn δ}, GateInv same s → (∀ o ∈ offers, o.isReset = false) →
      ∀ o ∈ offers, ∀ d ∈ o.minima, ∃ i, Rep same (run same true s offers) i d := by
  induction offers with
  | nil => intro s _ _ o ho; simp at ho
  | cons o0 offers ih =>
    intro s hs hnr o ho d hd
    have hs1 := offer_gateInv hsym hs o0
    have hnr' : ∀ o' ∈ offers, o'.isReset = false := fun o' ho' => hnr o' (by simp [ho'])
    rcases List.mem_cons.1 ho with rfl | ho'
    · obtain ⟨i, hi⟩ := offer_rep hsym hs o d hd
      exact ⟨i, hi.mono (run_mono hsym offers hs1 hnr').nodes⟩
    · exact ih hs1 hnr' o ho' d hd

/-! ### rounds -/

theorem successes_append (a b : List (Outcome δ)) : successes (a ++ b) = successes a ++ successes b := by
  simp [successes, List.filterMap_append]

theorem mergeRecs_append (same : δ → δ → Bool) (c : Bool) (s : Ktn δ) (a b : List (Rec δ)) :
    mergeRecs same c s (a ++ b) = mergeRecs same c (mergeRecs same c s a) b := by
  simp [mergeRecs, List.foldl_append]

theorem mergeRound_eq_flat (same : δ → δ → Bool) (c : Bool) (outs : List (List (Outcome δ))) :
    ∀ s : Ktn δ, mergeRound same c s outs = mergeRecs same c s (successes outs.flatten) := by
  induction outs with
  | nil => intro s; rfl
  | cons os outs ih =>
    intro s
    have : mergeRound same c s (os :: outs) = mergeRound same c (mergeRecs same c s (successes os)) outs := rfl
    rw [this, ih, List.flatten_cons, successes_append, mergeRecs_append]

theorem mergeRecs_eq_foldOutcome (same : δ → δ → Bool) (c : Bool) (outs : List (Outcome δ)) :
    ∀ s : Ktn δ, mergeRecs same c s (successes outs) = outs.foldl (mergeOutcome same c) s := by
  induction outs with
  | nil => intro s; rfl
  | cons o outs ih =>
    intro s
    cases o with
    | none => simpa [successes, mergeOutcome] using ih s
    | some r => simpa [successes, mergeOutcome, mergeRecs] using ih (testNewTs same c s r)

/-- which tasks were performed -/
def maskedOutcomes (mask : List Bool) (tasks : List (Task δ)) : List (List (Outcome δ)) :=
  List.zipWith (fun m t => if m then t.2 else []) mask tasks

theorem serialFold_eq (allowed : Ktn δ → Nat × Nat → Bool) (same : δ → δ → Bool) (c : Bool)
    (tasks : List (Task δ)) : ∀ s : Ktn δ, ∃ mask : List Bool, mask.length = tasks.length ∧
      tasks.foldl (fun s t => if allowed s t.1 then mergeRecs same c s (successes t.2) else s) s =
        mergeRound same c s (maskedOutcomes mask tasks) := by
  induction tasks with
  | nil => intro s; exact ⟨[], rfl, rfl⟩
  | cons t tasks ih =>
    intro s
    obtain ⟨mask, hl, he⟩ := ih (if allowed s t.1 then mergeRecs same c s (successes t.2) else s)
    refine ⟨allowed s t.1 :: mask, by simp [hl], ?_⟩
    simp only [List.foldl_cons, he, maskedOutcomes, List.zipWith_cons_cons, mergeRound]
    cases allowed s t.1 <;> simp [successes, mergeRecs]

theorem parallelFold_eq (allowed : Ktn δ → Nat × Nat → Bool) (same : δ → δ → Bool) (c : Bool)
    (s0 : Ktn δ) (tasks : List (Task δ)) : ∀ s : Ktn δ,
      (tasks.map (fun t => if allowed s0 t.1 then successes t.2 else [])).foldl (mergeRecs same c) s =
        mergeRound same c s (maskedOutcomes (tasks.map (fun t => allowed s0 t.1)) tasks) := by
  induction tasks with
  | nil => intro s; rfl
  | cons t tasks ih =>
    intro s
    simp only [List.map_cons, List.foldl_cons, maskedOutcomes, List.zipWith_cons_cons, mergeRound]
    rw [ih]
    cases allowed s0 t.1 <;> simp [successes, mergeRecs, mergeRound, maskedOutcomes]

theorem mergeRound_spec {same : δ → δ → Bool} (hsym : ∀ x y, same x y = same y x)
    (outs : List (List (Outcome δ))) {s : Ktn δ} (hs : GateInv same s) :
    GateInv same (mergeRound same true s outs) ∧
    Mono (fun y => ∃ r, some r ∈ outs.flatten ∧ y = r.ts) s (mergeRound same true s outs) := by
  rw [mergeRound_eq_flat]
  obtain ⟨h1, h2⟩ := mergeRecs_spec hsym (successes outs.flatten) hs
  refine ⟨h1, h2.weaken ?_⟩
  rintro y ⟨r, hr, hy⟩
  refine ⟨r, ?_, hy⟩
  simpa [successes] using hr

theorem mem_maskedOutcomes {mask : List Bool} {tasks : List (Task δ)} {o : Outcome δ}
    (h : o ∈ (maskedOutcomes mask tasks).flatten) : ∃ t ∈ tasks, o ∈ t.2 := by
  induction tasks generalizing mask with
  | nil => cases mask <;> simp [maskedOutcomes] at h
  | cons t tasks ih =>
    cases mask with
    | nil => simp [maskedOutcomes] at h
    | cons m mask =>
      simp only [maskedOutcomes, List.zipWith_cons_cons, List.flatten_cons, List.mem_append] at h
      rcases h with h | h
      · cases m
        · simp at h
        · exact ⟨t, by simp, by simpa using h⟩
      · obtain ⟨t', ht', ho⟩ := ih (mask := mask) h
        exact ⟨t', by simp [ht'], ho⟩

/-! ### reconvergence -/

theorem tsLoop_skip (same : δ → δ → Bool) (c : Bool) (outs : List (Outcome δ)) :
    ∀ s : Ktn δ, tsLoop true same c s outs = some (mergeRecs same c s (successes outs)) := by
  induction outs with
  | nil => intro s; rfl
  | cons o outs ih =>
    intro s
    cases o with
    | none => simpa [tsLoop, successes] using ih s
    | some r => simpa [tsLoop, successes, mergeRecs] using ih (testNewTs same c s r)

theorem tsLoop_abort (same : δ → δ → Bool) (c : Bool) (outs : List (Outcome δ)) (h : none ∈ outs) :
    ∀ s : Ktn δ, tsLoop false same c s outs = none := by
  induction outs with
  | nil => simp at h
  | cons o outs ih =>
    intro s
    cases o with
    | none => simp [tsLoop]
    | some r =>
      have : none ∈ outs := by simpa using h
      simpa [tsLoop] using ih this _

end TopSearch.Merge
