/-
  Helper lemmas for the nudged-elastic-band model (used by Props/C09.lean):
  vector algebra on `List α` over an ordered field.
-/
import TopSearch.Model.Neb
import Mathlib.Tactic.Ring
import Mathlib.Tactic.Linarith
import Mathlib.Tactic.FieldSimp
import Mathlib.Tactic.Positivity
import Mathlib.Tactic.SplitIfs
import Mathlib.Tactic.Tauto
import Mathlib.Algebra.Order.Field.Basic
import Mathlib.Algebra.Order.AbsoluteValue.Basic

set_option linter.unusedSectionVars false

namespace TopSearch.Neb
variable {α : Type} [Field α] [LinearOrder α] [IsStrictOrderedRing α]

/-! ### lengths -/
@[simp] theorem length_zeros (d : Nat) : (zeros d : List α).length = d := by simp [zeros]
@[simp] theorem length_vadd (a b : List α) : (vadd a b).length = min a.length b.length := by simp [vadd]
@[simp] theorem length_vsub (a b : List α) : (vsub a b).length = min a.length b.length := by simp [vsub]
@[simp] theorem length_vneg (a : List α) : (vneg a).length = a.length := by simp [vneg]
@[simp] theorem length_smul (c : α) (a : List α) : (smul c a).length = a.length := by simp [smul]
@[simp] theorem length_vscale (c : α) (a : List α) : (vscale a c).length = a.length := by simp [vscale]
@[simp] theorem length_vdiv (c : α) (a : List α) : (vdiv a c).length = a.length := by simp [vdiv]

/-! ### dot product -/
@[simp] theorem dot_nil_left (b : List α) : dot ([] : List α) b = 0 := by simp [dot]
@[simp] theorem dot_nil_right (a : List α) : dot a ([] : List α) = 0 := by simp [dot]
@[simp] theorem dot_cons (x y : α) (a b : List α) : dot (x :: a) (y :: b) = x * y + dot a b := by
  simp [dot]

theorem dot_smul_left (c : α) (a b : List α) : dot (smul c a) b = c * dot a b := by
  induction a generalizing b with
  | nil => simp [smul]
  | cons x a ih =>
    cases b with
    | nil => simp
    | cons y b =>
      have := ih b
      simp only [smul, List.map_cons, dot_cons] at this ⊢
      rw [this]; ring

theorem dot_vsub_left (a b t : List α) (h : a.length = b.length) :
    dot (vsub a b) t = dot a t - dot b t := by
  induction a generalizing b t with
  | nil => cases b <;> simp_all [vsub]
  | cons x a ih =>
    cases b with
    | nil => simp at h
    | cons y b =>
      cases t with
      | nil => simp
      | cons z t =>
        have := ih b t (by simpa using h)
        simp only [vsub, List.zipWith_cons_cons, dot_cons] at this ⊢
        rw [this]; ring

theorem dot_self_nonneg (a : List α) : 0 ≤ dot a a := by
  induction a with
  | nil => simp
  | cons x a ih => simp only [dot_cons]; nlinarith [mul_self_nonneg x]

theorem dot_vdiv (a b : List α) (c : α) : dot (vdiv a c) (vdiv b c) = dot a b / (c * c) := by
  induction a generalizing b with
  | nil => simp [vdiv]
  | cons x a ih =>
    cases b with
    | nil => simp [vdiv]
    | cons y b =>
      have := ih b
      simp only [vdiv, List.map_cons, dot_cons] at this ⊢
      rw [this, add_div, div_mul_div_comm]

theorem dot_zeros_left (d : Nat) (b : List α) : dot (zeros d : List α) b = 0 := by
  induction d generalizing b with
  | zero => simp [zeros]
  | succ d ih =>
    cases b with
    | nil => simp
    | cons y b => have := ih b; simp only [zeros, List.replicate_succ, dot_cons] at this ⊢; simp [this]

/-! ### cancellation -/
theorem vadd_vsub_cancel (v w : List α) (h : v.length = w.length) : vadd (vsub v w) w = v := by
  induction v generalizing w with
  | nil => simp [vadd, vsub]
  | cons x v ih =>
    cases w with
    | nil => simp at h
    | cons y w =>
      have := ih w (by simpa using h)
      simp only [vadd, vsub, List.zipWith_cons_cons] at this ⊢
      rw [this]; simp

theorem vadd_zeros_left (v : List α) : vadd (zeros v.length) v = v := by
  induction v with
  | nil => simp [vadd, zeros]
  | cons x v ih =>
    simp only [vadd, zeros, List.length_cons, List.replicate_succ, List.zipWith_cons_cons] at ih ⊢
    rw [ih]; simp

/-- one row of the linear interpolation, componentwise -/
theorem interp_row (x1 x2 : List α) (c t : α) :
    vadd x1 (vscale (vdiv (vsub x2 x1) c) t) = List.zipWith (fun a b => a + (b - a) / c * t) x1 x2 := by
  induction x1 generalizing x2 with
  | nil => simp [vadd, vscale, vdiv, vsub]
  | cons a x1 ih =>
    cases x2 with
    | nil => simp [vadd, vscale, vdiv, vsub]
    | cons b x2 =>
      have := ih x2
      simp only [vadd, vscale, vdiv, vsub, List.zipWith_cons_cons, List.map_cons] at this ⊢
      rw [this]

theorem zipWith_left_of_length (f : α → α → α) (hf : ∀ a b, f a b = a) (x1 x2 : List α)
    (h : x1.length = x2.length) : List.zipWith f x1 x2 = x1 := by
  induction x1 generalizing x2 with
  | nil => simp
  | cons a x1 ih =>
    cases x2 with
    | nil => simp at h
    | cons b x2 => simp [hf, ih x2 (by simpa using h)]

theorem zipWith_right_of_length (f : α → α → α) (hf : ∀ a b, f a b = b) (x1 x2 : List α)
    (h : x1.length = x2.length) : List.zipWith f x1 x2 = x2 := by
  induction x1 generalizing x2 with
  | nil => cases x2 <;> simp_all
  | cons a x1 ih =>
    cases x2 with
    | nil => simp at h
    | cons b x2 => simp [hf, ih x2 (by simpa using h)]

/-! ### the box -/

/-- `x` lies in the box: same dimension and every coordinate within its bounds -/
def InBox (box : List (α × α)) (x : List α) : Prop :=
  List.Forall₂ (fun b v => b.1 ≤ v ∧ v ≤ b.2) box x

theorem inBox_zipWith (f : α → α → α) (box : List (α × α))
    (hf : ∀ (b : α × α) u v, (b.1 ≤ u ∧ u ≤ b.2) → (b.1 ≤ v ∧ v ≤ b.2) → (b.1 ≤ f u v ∧ f u v ≤ b.2))
    (x1 x2 : List α) (h1 : InBox box x1) (h2 : InBox box x2) : InBox box (List.zipWith f x1 x2) := by
  induction h1 generalizing x2 with
  | nil => cases h2; exact List.Forall₂.nil
  | cons hb _ ih =>
    cases h2 with
    | cons hb2 h2' => exact List.Forall₂.cons (hf _ _ _ hb hb2) (ih _ h2')

/-- convexity in one coordinate -/
theorem convex_coord (lo hi a b c t : α) (hc : 0 < c) (ht0 : 0 ≤ t) (ht : t ≤ c)
    (ha : lo ≤ a ∧ a ≤ hi) (hb : lo ≤ b ∧ b ≤ hi) :
    lo ≤ a + (b - a) / c * t ∧ a + (b - a) / c * t ≤ hi := by
  have hs0 : 0 ≤ t / c := div_nonneg ht0 hc.le
  have hs1 : t / c ≤ 1 := (div_le_one hc).2 ht
  have e : a + (b - a) / c * t = a + (b - a) * (t / c) := by field_simp
  rw [e]
  constructor
  · nlinarith [mul_nonneg (sub_nonneg.2 ha.1) (sub_nonneg.2 hs1), mul_nonneg (sub_nonneg.2 hb.1) hs0]
  · nlinarith [mul_nonneg (sub_nonneg.2 ha.2) (sub_nonneg.2 hs1), mul_nonneg (sub_nonneg.2 hb.2) hs0]

end TopSearch.Neb
