/-
  Helper lemmas for the order-irrelevance of the permuted copy (Props/C14Coords.lean):
  point updates at different atoms commute; a group processed with pristine reads is a fold of point
  updates whose values do not depend on the accumulator.
-/
import TopSearch.Model.Align
import Mathlib.Data.List.Perm.Basic
import Mathlib.Data.List.Pairwise

namespace TopSearch.Align
variable {β : Type}

/-- point update -/
def upd (w : Nat → β) (p : Nat × β) : Nat → β := fun y => if y = p.1 then p.2 else w y

theorem upd_comm (w : Nat → β) (p q : Nat × β) (h : p.1 ≠ q.1) : upd (upd w p) q = upd (upd w q) p := by
  funext y
  unfold upd
  by_cases h1 : y = q.1 <;> by_cases h2 : y = p.1
  · exact absurd (h2.symm.trans h1) h
  · subst h1; simp [h2]
  · subst h2; simp [h1]
  · simp [h1, h2]

theorem foldl_upd_comm_one (l : List (Nat × β)) (w : Nat → β) (p : Nat × β) (h : ∀ q ∈ l, p.1 ≠ q.1) :
    l.foldl upd (upd w p) = upd (l.foldl upd w) p := by
  induction l generalizing w with
  | nil => rfl
  | cons q l ih =>
    simp only [List.foldl_cons]
    rw [upd_comm w p q (h q (by simp)), ih _ (fun r hr => h r (by simp [hr]))]

theorem foldl_upd_comm (l1 l2 : List (Nat × β)) (w : Nat → β) (h : ∀ p ∈ l1, ∀ q ∈ l2, p.1 ≠ q.1) :
    l2.foldl upd (l1.foldl upd w) = l1.foldl upd (l2.foldl upd w) := by
  induction l1 generalizing w with
  | nil => rfl
  | cons p l1 ih =>
    simp only [List.foldl_cons]
    rw [ih _ (fun a ha q hq => h a (by simp [ha]) q hq),
      foldl_upd_comm_one l2 w p (fun q hq => h p (by simp) q hq)]

/-- the point updates one group performs when it reads from the untouched input -/
def pairsOf (coords2 : Nat → β) (g : Grp) : List (Nat × β) :=
  (g.g1.zip g.col).map (fun ac => (ac.1, coords2 (g.g2.getD ac.2 0)))

theorem group_eq_foldl (coords2 w : Nat → β) (g : Grp) :
    assembleCoordsGroup true coords2 w g =
      if g.g1.length ≤ 1 then w else (pairsOf coords2 g).foldl upd w := by
  unfold assembleCoordsGroup pairsOf
  split
  · rfl
  · simp only [if_true, List.foldl_map]
    rfl

theorem keys_pairsOf (coords2 : Nat → β) (g : Grp) : ∀ p ∈ pairsOf coords2 g, p.1 ∈ g.g1 := by
  intro p hp
  unfold pairsOf at hp
  simp only [List.mem_map] at hp
  obtain ⟨ac, hac, rfl⟩ := hp
  exact (List.of_mem_zip hac).1

theorem group_comm (coords2 w : Nat → β) (g h : Grp) (hd : List.Disjoint g.g1 h.g1) :
    assembleCoordsGroup true coords2 (assembleCoordsGroup true coords2 w g) h =
      assembleCoordsGroup true coords2 (assembleCoordsGroup true coords2 w h) g := by
  simp only [group_eq_foldl]
  by_cases hg : g.g1.length ≤ 1 <;> by_cases hh : h.g1.length ≤ 1 <;> simp only [hg, hh, if_true, if_false]
  apply foldl_upd_comm
  intro p hp q hq heq
  exact hd (keys_pairsOf coords2 g p hp) (heq ▸ keys_pairsOf coords2 h q hq)

theorem pairwise_forall_ne {α : Type} {R : α → α → Prop} (hs : ∀ x y, R x y → R y x) {l : List α}
    (h : l.Pairwise R) : ∀ x ∈ l, ∀ y ∈ l, x ≠ y → R x y := by
  induction l with
  | nil => intro x hx; simp at hx
  | cons a l ih =>
    rw [List.pairwise_cons] at h
    intro x hx y hy hne
    simp only [List.mem_cons] at hx hy
    rcases hx with rfl | hx <;> rcases hy with rfl | hy
    · exact absurd rfl hne
    · exact h.1 y hy
    · exact hs _ _ (h.1 x hx)
    · exact ih h.2 x hx y hy hne

end TopSearch.Align
