-- REGENERATED on every run by harness/translate/graph.py from
-- /repo/src/topsearch/analysis/{graph_properties,roughness,batch_selection}.py (do not edit)
import TopSearch.Model.Graph
import TopSearch.Model.Batch
namespace TopSearch.Gen.Graph
def cfg : TopSearch.Graph.Cfg :=
  { rmCmp := .gt, intervals := 510, startOffset := 10,
    iters := 530, useArgmin := true,
    roughSmall := [0, 1], roughCmp := .lt }
def bcfg : TopSearch.Batch.BCfg :=
  { monoCmp := .le, sentCmp := .gt, sentThr := 1000000000,
    sentinel := 10000000000, useMin := true, barrierCmp := .lt,
    noTsMax := 100000, barrierSkipsCurrent := true,
    barrierSkipsExcluded := true,
    scanRangeIncludesTs := true,
    schemes := ["Lowest", "Monotonic", "Barrier", "Topographical"] }
end TopSearch.Gen.Graph
