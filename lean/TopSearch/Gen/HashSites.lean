-- REGENERATED on every run by harness/translate/hash_sites.py (do not edit):
-- `sites` = every set construction found in the current /repo/src/topsearch;
-- `justified` = the sites whose iteration order cannot influence results, with the reason.
namespace TopSearch.Gen.HashSites
abbrev Site := String × String × String

def sites : List Site := [
  ("analysis/batch_selection.py", "get_excluded_minima", "set(v2)"),
  ("analysis/graph_properties.py", "unconnected_component", "set(range(ktn.n_minima))"),
  ("analysis/graph_properties.py", "unconnected_component", "set(v2)"),
  ("analysis/pair_selection.py", "connect_to_set", "set(range(ktn.n_minima))"),
  ("analysis/pair_selection.py", "connect_to_set", "set(v0)"),
  ("analysis/pair_selection.py", "connect_to_set", "set()"),
  ("analysis/pair_selection.py", "unique_pairs", "set(v0)"),
  ("data/coordinates.py", "get_rotatable_dihedrals", "set((tuple(v11) for v11 in self.rotatable_dihedrals))"),
  ("data/coordinates.py", "get_rotatable_dihedrals", "set((tuple(v11) for v11 in v8))"),
  ("data/coordinates.py", "remove_repeat_angles", "set([v1[1] for v1 in angles])"),
  ("global_optimisation/perturbations.py", "perturb", "random.sample(…)"),
  ("global_optimisation/perturbations.py", "perturb", "random.sample(…)"),
  ("global_optimisation/perturbations.py", "perturb", "random.random(…)"),
  ("similarity/molecular_similarity.py", "get_permutable_groups", "set(coords1.atom_labels)"),
  ("similarity/molecular_similarity.py", "get_permutable_groups", "set((tuple(sorted(v13)) for v13 in v10))")
]

/-- reason per site: element type int / int tuple (CPython's hash of these does not depend on
    PYTHONHASHSEED), or the string sets of `get_permutable_groups` (order irrelevant:
    `C11_group_order_irrelevant`) -/
def justified : List Site := [
  ("analysis/graph_properties.py", "unconnected_component", "set(range(ktn.n_minima))"),  -- ints,
  ("analysis/graph_properties.py", "unconnected_component", "set(v2)"),  -- ints (connected_set),
  ("analysis/pair_selection.py", "connect_to_set", "set(range(ktn.n_minima))"),  -- ints,
  ("analysis/pair_selection.py", "connect_to_set", "set(v0)"),  -- ints (s_set),
  ("analysis/pair_selection.py", "connect_to_set", "set()"),  -- empty,
  ("analysis/pair_selection.py", "unique_pairs", "set(v0)"),  -- tuples of ints (final_pairs),
  ("analysis/batch_selection.py", "get_excluded_minima", "set(v2)"),  -- ints (excluded_minima),
  ("data/coordinates.py", "get_rotatable_dihedrals", "set((tuple(v11) for v11 in self.rotatable_dihedrals))"),  -- tuples of ints (atom indices),
  ("data/coordinates.py", "get_rotatable_dihedrals", "set((tuple(v11) for v11 in v8))"),  -- tuples of ints (atom indices),
  ("data/coordinates.py", "remove_repeat_angles", "set([v1[1] for v1 in angles])"),  -- ints (atom indices),
  ("global_optimisation/perturbations.py", "perturb", "random.sample(…)"),  -- Python's random module, seeded by the caller; basin-hopping steps never run inside a pool worker,
  ("global_optimisation/perturbations.py", "perturb", "random.random(…)"),  -- Python's random module, seeded by the caller; basin-hopping steps never run inside a pool worker,
  ("similarity/molecular_similarity.py", "get_permutable_groups", "set(coords1.atom_labels)"),  -- strings: order irrelevant by C11_group_order_irrelevant,
  ("similarity/molecular_similarity.py", "get_permutable_groups", "set((tuple(sorted(v13)) for v13 in v10))")  -- tuples of strings: order irrelevant by C11_group_order_irrelevant
]

/-- the Pool method that hands the pairs to the workers (`map` blocks until every task has been
    dispatched and returns results by index; anything lazier lets the parent merge while later tasks
    are still being pickled) -/
def poolMethod : String := "map"
/-- `permutational_alignment` reads the second structure's atoms from the untouched input
    (`pristine`), not from the working copy it is overwriting group by group -/
def costMatrixSource : String := "pristine"
end TopSearch.Gen.HashSites
