-- REGENERATED on every run by harness/translate/model_data.py from
-- /repo/src/topsearch/data/model_data.py and potentials/gaussian_process.py (do not edit)
import TopSearch.Model.ModelData
namespace TopSearch.Gen.ModelData
open TopSearch.ModelData TopSearch.Py

def dedup : DedupCfg := ⟨.retained, .lt, true, true, true⟩
def counts : CountCfg := ⟨true, true, true, true⟩

def stdResp : Xform := { writes := [⟨.std, .std, true, false⟩, ⟨.mean, .mean, true, false⟩], formula := (.div (.sub (.v 0) (.v 2)) (.v 1)) }
def unstdResp : Xform := { writes := [], formula := (.add (.mul (.v 0) (.v 1)) (.v 2)) }
def normResp : Xform := { writes := [⟨.min, .min, true, false⟩, ⟨.max, .max, true, false⟩], formula := (.div (.sub (.v 0) (.v 3)) (.sub (.v 4) (.v 3))) }
def unnormResp : Xform := { writes := [], formula := (.add (.mul (.v 0) (.sub (.v 4) (.v 3))) (.v 3)) }
def stdTrain : Xform := { writes := [⟨.std, .std, true, true⟩, ⟨.mean, .mean, true, true⟩], formula := (.div (.sub (.v 0) (.v 2)) (.v 1)) }
def unstdTrain : Xform := { writes := [], formula := (.add (.mul (.v 0) (.v 1)) (.v 2)) }
def normTrain : Xform := { writes := [⟨.min, .min, true, true⟩, ⟨.max, .max, true, true⟩], formula := (.div (.sub (.v 0) (.v 3)) (.sub (.v 4) (.v 3))) }
def unnormTrain : Xform := { writes := [], formula := (.add (.mul (.v 0) (.sub (.v 4) (.v 3))) (.v 3)) }

def prepareSteps : List Step := [(.ifStdTraining, .stdTraining), (.ifLimit, .limitMax), (.ifStdResponse, .stdResponse)]
def addDataSteps : List Step := [(.ifStdTraining, .unstdTraining), (.ifStdResponse, .unstdResponse), (.always, .append), (.ifStdTraining, .stdTraining), (.ifStdResponse, .stdResponse)]
def lowestSteps : List Step := [(.ifStdResponse, .unstdResponse), (.always, .takeMin), (.ifStdResponse, .stdResponse)]

end TopSearch.Gen.ModelData
