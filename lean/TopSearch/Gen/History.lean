-- REGENERATED on every run by harness/translate/history.py from
-- src/topsearch/sampling/exploration.py (check_pair, run_connection_attempts) and
-- src/topsearch/data/kinetic_transition_network.py (remove_minimum, add_network) (do not edit)
import TopSearch.Model.History
namespace TopSearch.Gen.History
/-- `check_pair` after the counting loop: the returned `allowed` flag -/
def checkKernel (repeats : Nat) (hasEdge : Bool) (node1 node2 : Nat) : Bool :=
  (if (repeats = 1 ∨ repeats = 2) then (if (hasEdge = true) then false else (if (node1 = node2) then false else true)) else (if (repeats > 2) then false else (if (hasEdge = true) then false else (if (node1 = node2) then false else true))))
/-- what `remove_minimum(k)` makes of the history `h` -/
def historyAfterRemove (k : Nat) (h : List (Nat × Nat)) : List (Nat × Nat) :=
  ((((h).filter (fun p => !(p.1 == k || p.2 == k)))).map (fun p => (p.1 - (if p.1 > k then 1 else 0), p.2 - (if p.2 > k then 1 else 0))))
def cfg : TopSearch.History.Cfg :=
  { roundSorts := true, mergeMaps := true, mergeSkipsUnmatched := true, mergeSorts := true }
end TopSearch.Gen.History
