-- REGENERATED on every run by harness/translate/ktn_cfg.py from
-- /repo/src/topsearch/data/kinetic_transition_network.py (do not edit)
import TopSearch.Model.Ktn
namespace TopSearch.Gen.Ktn
def cfg : TopSearch.Ktn.Cfg :=
  { addTsCountsOnlyNew := true, removeRenumbersHistory := true }
end TopSearch.Gen.Ktn
