-- REGENERATED on every run by harness/translate/lbfgs_wiring.py from
-- /repo/src/topsearch/minimisation/lbfgs.py (do not edit)
import TopSearch.Model.Lbfgs
namespace TopSearch.Gen.Lbfgs
open TopSearch.Lbfgs
def call : CallRecord :=
  { calleeIsFminLbfgsb := true
    kwargs := [(.func, .param .funcGrad),
               (.x0, .param .initialPosition),
               (.args, .param .args),
               (.bounds, .param .bounds),
               (.m, .param .historySize),
               (.factr, .lit (1) 1000000000000000000000000000000),
               (.pgtol, .param .convCrit),
               (.maxiter, .param .nSteps),
               (.maxls, .lit (40) 1)]
    argsNoneBecomesEmpty := true
    singleCall := true
    returns := [.calleeResult 0, .calleeResult 1, .calleeResult 2] }
end TopSearch.Gen.Lbfgs
