-- REGENERATED on every run by harness/translate/similarity.py from
-- /repo/src/topsearch/similarity/similarity.py and sampling/exploration.py (do not edit)
import TopSearch.Model.Merge
import TopSearch.Py.Expr
namespace TopSearch.Gen.Similarity
open TopSearch.Py TopSearch.Merge
/-- absolute branch of test_same; v0 = self.distance(coords1.position, coords2),
    v1 = distance_criterion, v2 = energy1, v3 = energy2, v4 = energy_criterion -/
def absKernel : B := (.and (.lt (.v 0) (.v 1)) (.lt (.fn .abs (.sub (.v 2) (.v 3))) (.v 4)))
/-- proportional branch; v0 = the ellipsoid sum, v1..v4 as above -/
def propKernel : B := (.and (.le (.v 0) (.c 1 1)) (.lt (.fn .abs (.sub (.v 2) (.v 3))) (.v 4)))
/-- element-wise term under np.sum; v0 = position[i], v1 = coords2[i], v2 = upper[i],
    v3 = lower[i], v4 = distance_criterion -/
def propTermE : E := (.pow (.div (.sub (.v 0) (.v 1)) (.mul (.sub (.v 2) (.v 3)) (.v 4))) 2)
def distanceIsNorm : Bool := true
def cfg : TopSearch.Merge.Cfg :=
  { testNewTsSteps := [.repeatCheck, .lookup .plus, .insertIfNone .plus, .lookup .minus, .insertIfNone .minus, .addTs .plus .minus],
    reconvergeSkipsFailed := true,
    attemptKeepsOnlySuccessful := true }
/-- which element of the search's result tuple is appended at each position of a record -/
def attemptWiring : List Nat := [0, 1, 2, 3, 4, 5, 6]
/-- record positions passed as (coords.position, e_ts, min_plus, e_plus, min_minus, e_minus) -/
def serialWiring : List Nat := [0, 1, 2, 3, 4, 5]
def parallelWiring : List Nat := [0, 1, 2, 3, 4, 5]
def reconvergeWiring : List Nat := [0, 1, 2, 3, 4, 5]
end TopSearch.Gen.Similarity
