-- REGENERATED on every run by harness/translate/bh.py from
-- /repo/src/topsearch/global_optimisation/basin_hopping.py (do not edit)
import TopSearch.Model.BasinHopping
namespace TopSearch.Gen.BasinHopping
open TopSearch.BH

/-- which save/restore sites of `run` copy the array -/
def copyCfg : CopyCfg :=
  { initSave := true, failRestore := true, bondRestore := true, acceptSave := true, rejectRestore := true }
def copies : Bool := copyCfg.all

/-- the failure test of the loop of `run` -/
def loopFails (warnflag : Int) (relRed : Bool) : Bool :=
  (decide (warnflag ≠ (0 : Int)) || relRed)
/-- the storing test of `prepare_initial_coordinates` -/
def initStores (warnflag : Int) : Bool :=
  decide (warnflag = (0 : Int))

section
variable {α : Type} [LT α] [LE α] [DecidableLT α] [DecidableLE α] [DecidableEq α]
  [Add α] [Sub α] [Mul α] [Div α] [Neg α] [NatCast α]

/-- `metropolis` after symbolic execution; `boltzmann_factor` stands for the value of
    the `np.exp` call and `uniform_random` for the draw -/
def metropolisDecide (energy1 energy2 boltzmann_factor uniform_random : α) : Bool :=
  (if decide (energy2 < energy1) then true else decide (boltzmann_factor > uniform_random))
/-- the argument of `np.exp` -/
def exponent (energy1 energy2 temperature : α) : α :=
  ((-(energy2 - energy1)) / temperature)
def metropolis (expf : α → α) (energy1 energy2 temperature uniform_random : α) : Bool :=
  metropolisDecide energy1 energy2 (expf (exponent energy1 energy2 temperature)) uniform_random

/-- the kernels the model is run with -/
def kern : Kern α := ⟨copyCfg, loopFails, initStores, metropolisDecide⟩
end
end TopSearch.Gen.BasinHopping
