-- REGENERATED on every run by harness/translate/io_spec.py from
-- src/topsearch/data/kinetic_transition_network.py (read_network, dump_network) (do not edit)
import TopSearch.Model.IO
namespace TopSearch.Gen.IOSpec
open TopSearch.IO
def readSpec : ReadSpec :=
  { minData := ⟨2, false, false⟩,
    minCoords := ⟨2, false, false⟩,
    tsData := ⟨2, false, false⟩,
    tsCoords := ⟨2, false, false⟩,
    pairlist := ⟨2, true, true⟩,
    minLabelCol := 0,
    minEnergyCol := 1,
    tsUCol := 0,
    tsVCol := 1,
    tsEnergyCol := 2 }
def dumpSpec : DumpSpec :=
  { tsData := [.i, .i, .f5], minData := [.i, .f5], coords := .full, pairlist := .i }
end TopSearch.Gen.IOSpec
