-- REGENERATED on every run by harness/translate/align.py from
-- /repo/src/topsearch/similarity/molecular_similarity.py (do not edit)
namespace TopSearch.Gen.Align
structure Cfg where
  returnsPositionArray : Bool
  earlyExitStrictLess : Bool
  improveStrictLess : Bool
  restarts : Nat
  exactImproveStrictLess : Bool
  deriving Repr, DecidableEq
def cfg : Cfg := { returnsPositionArray := true, earlyExitStrictLess := true, improveStrictLess := true, restarts := 150, exactImproveStrictLess := true }
end TopSearch.Gen.Align
