-- REGENERATED on every run by harness/translate/moves.py from
-- src/topsearch/data/coordinates.py and global_optimisation/perturbations.py (do not edit)
import TopSearch.Model.Moves
namespace TopSearch.Gen.Moves
open TopSearch.Moves

section box
variable {α : Type} [LT α] [LE α] [DecidableLT α] [DecidableLE α]
/-- check_bounds, one coordinate -/
def checkBounds1 (x lo hi : α) : Bool := (!((decide (x > lo)) && (decide (x < hi))))
/-- active_bounds, one coordinate: (first returned mask, second returned mask) -/
def activeBounds1 (x lo hi : α) : Bool × Bool := ((decide (x ≤ lo)), (decide (x ≥ hi)))
/-- move_to_bounds, one coordinate -/
def clip1 (x lo hi : α) : α := npClip x lo hi
/-- at_bounds / all_bounds over the mask of check_bounds -/
def atBounds (mask : List Bool) : Bool := mask.any id
def allBounds (mask : List Bool) : Bool := mask.all id
end box

section steps
variable {α : Type} [Add α] [Sub α] [Mul α] [Div α] [Neg α] [NatCast α]
/-- StandardPerturbation: the perturbation of one coordinate from the draw `u` and the step `s` -/
def stdPerturbation (u s : α) : α := ((u - (((1 : Nat) : α) / ((2 : Nat) : α))) * s)
/-- set_step_sizes, proportional branch (`m` = max_displacement) -/
def stepSizeProp (m lo hi : α) : α := ((hi - lo) * m)
/-- the perturbation is added to the position (false: subtracted) -/
def stdAdds : Bool := true
/-- `coords.move_to_bounds()` is the last statement of `perturb` -/
def stdClips : Bool := true
/-- AtomicPerturbation: one entry of the displacement from the draw `u` -/
def atomicPerturbation (u m : α) : α := ((u * m) - ((((1 : Nat) : α) / ((2 : Nat) : α)) * m))
/-- MolecularPerturbation: the random angle from the draw `u` -/
def molecularAngle (u m : α) : α := (((u * ((2 : Nat) : α)) - ((1 : Nat) : α)) * m)
end steps

/-- AtomicPerturbation: `random.sample(range(sampleLo, sampleHi ndim), max_atoms)` -/
def sampleLo : Nat := 1
def sampleHi (ndim : Nat) : Nat := (ndim / 3)

section rot
variable {α : Type} [Add α] [Sub α] [Mul α] [Neg α] [Zero α] [One α]
/-- get_rotation_matrix (`c`, `s` = cos, sin of the angle) -/
def rotX (c s : α) : M3 α := ⟨1, 0, 0, 0, c, ((-1) * s), 0, s, c⟩
/-- rotate_dihedral: the matrix applied after the x-rotation, from the alignment rotation `Q` -/
def undo (Q : M3 α) : M3 α := M3.transpose Q
end rot
end TopSearch.Gen.Moves
