-- REGENERATED on every run by harness/translate/bonds.py from
-- /repo/src/topsearch/data/coordinates.py (MolecularCoordinates.same_bonds; do not edit)
import TopSearch.Model.Bonds
namespace TopSearch.Gen.Bonds
def compare : TopSearch.Bonds.Compare := .sortedLists
/-- the number of bonds is compared first; every bond contributes `sorted([label_u, label_v])` -/
def checksCount : Bool := true
def labelsSorted : Bool := true
end TopSearch.Gen.Bonds
