-- REGENERATED on every run by harness/translate/carried.py from the current source (do not edit)
-- findings of the carried-state analysis (entry points and modules of the property being checked) that are
-- not on record in carried_baseline.json
namespace TopSearch.Gen.Carried
def unrecorded : List String := []
end TopSearch.Gen.Carried
