-- REGENERATED on every run by harness/translate/hef.py from
-- /repo/src/topsearch/transition_states/hybrid_eigenvector_following.py (do not edit)
import TopSearch.Model.Hef
namespace TopSearch.Gen.Hef
open TopSearch.Hef
def cfg : Cfg :=
  { convAxis := 1,
    convCmp := .lt,
    validAxis := 1,
    eigenvalueCmp := .eq,
    flipRule := .overlap .lt,
    projLowerCmp := .lt,
    projUpperCmp := .gt,
    pushEnergyCmp := .gt,
    pushGradCmp := .gt,
    pushGradFactor := 5,
    pushIncrements := 10,
    pushFallback := 20,
    pushDivisor := 10,
    localFracNum := 1,
    localFracDen := 50,
    sdLoops := 50,
    subspaceMaxEigSteps := 5,
    stepClips := true }
/-- the values `check_valid_eigenvector` stores in `self.failure`, in the order of its tests -/
def validReasons : List String := ["eigenvector", "eigenvalue", "bounds"]
/-- the finite-difference displacement of `rayleigh_ritz_function_gradient` (numerator, denominator); the rest
    of that function is checked statement by statement against the transcription `rayleighCoded` -/
def rayleighDisp : Nat × Nat := (1, 1000)
end TopSearch.Gen.Hef
