-- REGENERATED on every run by harness/translate/pairs.py from
-- src/topsearch/analysis/pair_selection.py and sampling/exploration.py (do not edit)
import TopSearch.Model.Pairs
namespace TopSearch.Gen.Pairs
open TopSearch.Pairs
def kernels : Kernels where
  closestSlice := fun neighbours => fun l => pySlice 1 (neighbours + 1) l
  nearestSlice := fun l => l.drop 1
  cyclesSlice := fun cycles => fun l => pySlice 0 cycles l
  keepPair := fun p => p != (0, 0)
  sortTuple := true
  filterInF := true
/-- `unique_pairs` passes its result through `set(...)` -/
def viaSet : Bool := true
def dispatch (option : String) : Option Scheme :=
  if option == "ClosestEnumeration" then some .closest
  else if option == "ConnectUnconnected" then some .unconnected
  else if option == "ReadPairs" then some .read
  else none
end TopSearch.Gen.Pairs
