-- REGENERATED on every run by harness/translate/neb.py from
-- /repo/src/topsearch/transition_states/nudged_elastic_band.py (do not edit)
namespace TopSearch.Gen.Neb
/-- linear_interpolation: the clamp that follows `n_images = int(image_density*dist)` -/
def clampLinear (maxImages raw : Int) : Int :=
  (if (raw < (10 : Int)) then (10 : Int) else (if (raw > maxImages) then maxImages else raw))
/-- dihedral_interpolation: the same clamp -/
def clampDihedral (maxImages raw : Int) : Int :=
  (if (raw < (10 : Int)) then (10 : Int) else (if (raw > maxImages) then maxImages else raw))
def rawCountIsIntDensityDist : Bool := true
/-- update_image_density: constant factor (as a fraction) and the powers of the other factors -/
def retryNum : Int := 3
def retryDen : Nat := 2
def retryOrigPow : Nat := 1
def retryAttemptsPow : Nat := 1
def revertRestoresOriginal : Bool := true
/-- initial_interpolation: guards of update / revert; update before and revert after the interpolation -/
def updateGuard (attempts : Int) : Bool := decide (attempts > (0 : Int))
def revertGuard (attempts : Int) : Bool := decide (attempts > (0 : Int))
def revertAfterInterpolation : Bool := true
/-- find_ts_candidates: `range(candLo, n_images - candOff)` and the test -/
def candLo : Nat := 1
def candOff : Nat := 1
def candTest {α : Type} [LT α] [LE α] [DecidableLT α] [DecidableLE α] [DecidableEq α] (ePrev e eNext : α) : Bool :=
  (decide (e ≥ eNext) && decide (e ≥ ePrev))
/-- find_tangent_differences: `s` is the sum of the two energy-change signs; `…Sel = k` means
    `position_differences[i-k]` is selected -/
def posDiffCoef : Int := -1
def tanLo : Nat := 1
def tanOff : Nat := 1
def tanUp (s : Int) : Bool := decide (s ≥ (1 : Int))
def tanDown (s : Int) : Bool := decide (s ≤ (-1 : Int))
def tanZero (s : Int) : Bool := decide (s = (0 : Int))
def tanUpSel : Int := 0
def tanDownSel : Int := 1
def tanFlatSel : Int := 1
def tanExtTest {α : Type} [LT α] [LE α] [DecidableLT α] [DecidableLE α] [DecidableEq α] (ePrev eNext : α) : Bool :=
  decide (eNext ≥ ePrev)
/-- (k of the vector weighted by v_max, k of the vector weighted by v_min) -/
def tanExtThen : Int × Int := (0, 1)
def tanExtElse : Int × Int := (1, 0)
/-- perpendicular_component: `if vec2_magnitude < cut` (the double's exact value) -/
def cutNum : Nat := 3961408125713217
def cutDen : Nat := 39614081257132168796771975168
def cutIsStrictLess : Bool := true
/-- band_function_gradient -/
def potZeroFirst : Bool := true
def potZeroLast : Bool := true
def bandGradientZeroInit : Bool := true
def bandGradientOnlyLoopWrites : Bool := true
def asmLo : Nat := 1
def asmOff : Nat := 1
def springSliceInterior : Bool := true
/-- the literal in front of `np.diff(distances)` and of `np.diff(band)` -/
def springCoef : Int := -1
def diffCoef : Int := -1
end TopSearch.Gen.Neb
