/-
  Line-protocol helpers shared by the drivers (`lake env lean --run Drivers/<X>.lean`).
  Numbers travel as exact rationals `n/d` (or plain integers); the model never sees a
  rounded value.  Malformed input is answered `bad-op`, never defaulted.
-/
namespace TopSearch.Drv

def words (s : String) : List String :=
  (s.splitOn " ").filter (· ≠ "")

def parseNat? (s : String) : Option Nat := s.toNat?
def parseInt? (s : String) : Option Int := s.toInt?

def parseBool? (s : String) : Option Bool :=
  if s = "1" || s = "true" || s = "True" then some true
  else if s = "0" || s = "false" || s = "False" then some false else none

/-- `n/d` or `n` -/
def parseRat? (s : String) : Option Rat :=
  match s.splitOn "/" with
  | [n] => n.toInt?.map (fun (z : Int) => (z : Rat))
  | [n, d] => do
      let z ← n.toInt?
      let k ← d.toNat?
      if k = 0 then none else some ((z : Rat) / (k : Rat))
  | _ => none

/-- comma separated list; the token `-` is the empty list -/
def parseList? {α} (p : String → Option α) (s : String) : Option (List α) :=
  if s = "-" then some [] else (s.splitOn ",").mapM p

def parsePair? (s : String) : Option (Nat × Nat) :=
  match s.splitOn ":" with
  | [a, b] => do some ((← a.toNat?), (← b.toNat?))
  | _ => none

def showRat (q : Rat) : String :=
  if q.den = 1 then toString q.num else s!"{q.num}/{q.den}"

def showList {α} (f : α → String) (l : List α) : String :=
  if l.isEmpty then "-" else ",".intercalate (l.map f)

def showBool (b : Bool) : String := if b then "1" else "0"

/-- read stdin line by line, thread a state through `step`, print each answer -/
partial def loop {σ} (step : σ → List String → σ × String) (s : σ) : IO Unit := do
  let h ← IO.getStdin
  let out ← IO.getStdout
  let rec go (s : σ) : IO Unit := do
    let line ← h.getLine
    if line.isEmpty then
      out.flush
      return ()
    let ws := words (line.trimAscii.toString)
    if ws.isEmpty then go s
    else
      let (s', ans) := step s ws
      out.putStrLn ans
      go s'
  go s

end TopSearch.Drv
