/-
  TopSearch.Model.ModelData — the training-set store `ModelData`
  (src/topsearch/data/model_data.py) and the data-update cycle of `GaussianProcess`
  (src/topsearch/potentials/gaussian_process.py: prepare_training_data, add_data, lowest_point).
  Core Lean only; every definition is generic over the numeric type `α`, executed at `Rat` by
  Drivers/ModelData.lean and proved over ordered fields in Props/C19.lean.

  * A dataset is `training : List (List α)` (rows) + `response : List α`, with the cached
    fields `n_points`, `n_dims` and the two statistics dictionaries exactly as the class keeps them.
  * `np.std` is `sqrt(mean(|x - mean|²))` (ddof = 0).  `sqrt` is never interpreted: every
    standardisation takes the standard deviation `σ` as a *parameter*; the theorems assume
    `0 ≤ σ ∧ σ*σ = var` (`IsStd`) where they need it, and only `σ ≠ 0` for the round trips.
  * `np.linalg.norm(a - b) < cutoff` is modelled on squared distances:
    `d < c ⇔ 0 < c ∧ d² < c²` for `d ≥ 0` (`Props.C19.C19_sq_cmp`).
  * `remove_duplicates` exists in three scan variants selected by a configuration the translator
    regenerates from the source (`Gen.ModelData.dedup`): the repaired scan against the *retained*
    points, and the pair loop over all `i < j` with / without the `break` (the original code is
    the pair loop with `break`).
-/
import TopSearch.Py.Expr

namespace TopSearch.ModelData

/-! ### numeric helpers -/
section num
variable {α : Type} [Add α] [Sub α] [Mul α] [Div α] [NatCast α]

def sum (xs : List α) : α := xs.foldr (· + ·) ((0 : Nat) : α)

/-- `np.mean` of a 1-d array -/
def mean (xs : List α) : α := sum xs / ((xs.length : Nat) : α)

def sq (x : α) : α := x * x

/-- population variance: `np.std(xs)**2 = mean(|x - mean|²)` (ddof = 0) -/
def var (xs : List α) : α := mean (xs.map (fun x => sq (x - mean xs)))

/-- squared Euclidean distance of two rows -/
def sqDist (a b : List α) : α := sum (List.zipWith (fun x y => sq (x - y)) a b)

/-- the four element-wise formulas of the class (x, then the two stored statistics) -/
def stdF (x m s : α) : α := (x - m) / s
def unstdF (x m s : α) : α := x * s + m
def normF (x lo hi : α) : α := (x - lo) / (hi - lo)
def unnormF (x lo hi : α) : α := x * (hi - lo) + lo

/-- numpy broadcasting of a row against two statistics vectors: `f row[j] a[j] b[j]` -/
def zip3With (f : α → α → α → α) : List α → List α → List α → List α
  | x :: xs, a :: as, b :: bs => f x a b :: zip3With f xs as bs
  | _, _, _ => []

/-- column `j` of a row-major table -/
def column (j : Nat) (t : List (List α)) : List α := t.map (fun r => r.getD j ((0 : Nat) : α))

/-- a statistic taken along axis 0: one value per feature -/
def colStat (f : List α → α) (d : Nat) (t : List (List α)) : List α :=
  (List.range d).map (fun j => f (column j t))

variable [LT α] [DecidableLT α]

/-- `np.min` / `np.max` of a non-empty 1-d array (the guard `n ≥ 1` is in `Op.valid`) -/
def minList : List α → α
  | [] => ((0 : Nat) : α)
  | x :: xs => xs.foldl (fun m y => if y < m then y else m) x
def maxList : List α → α
  | [] => ((0 : Nat) : α)
  | x :: xs => xs.foldl (fun m y => if m < y then y else m) x

end num

/-! ### np.delete and the duplicate scans (index level, as in the code) -/

/-- `np.delete(xs, idx, axis=0)`: drop the rows whose index occurs in `idx`
    (an index may occur several times in `idx`, as numpy allows). -/
def deleteIdxFrom {β : Type} (idx : List Nat) : Nat → List β → List β
  | _, [] => []
  | k, x :: xs =>
    if idx.contains k then deleteIdxFrom idx (k + 1) xs else x :: deleteIdxFrom idx (k + 1) xs

def npDelete {β : Type} (xs : List β) (idx : List Nat) : List β := deleteIdxFrom idx 0 xs

/-- the repaired scan: `for j in range(n): repeat = any(close i j for i in retained)`;
    returns `(retained_points, repeated_points)`. -/
def scanRetained (close : Nat → Nat → Bool) : List Nat → List Nat → List Nat → List Nat × List Nat
  | [], ret, rep => (ret, rep)
  | j :: js, ret, rep =>
    if ret.any (fun i => close i j) then scanRetained close js ret (rep ++ [j])
    else scanRetained close js (ret ++ [j]) rep

/-- the pair loop `for i in range(n-1): for j in range(i+1, n): if close: repeated.append(j)`,
    with (`brk = true`, the original code) or without the `break` after the first hit for `i`;
    returns `repeated_points` (possibly with repeats). -/
def scanPairs (brk : Bool) (close : Nat → Nat → Bool) (n : Nat) : List Nat :=
  (List.range (n - 1)).flatMap fun i =>
    let hits := (List.range' (i + 1) (n - (i + 1))).filter (fun j => close i j)
    if brk then hits.take 1 else hits

inductive Cmp where
  | lt | le
  deriving DecidableEq, Repr

inductive Scan where
  | retained
  | pairs (brk : Bool)
  deriving DecidableEq, Repr

/-- what the translator reads from `remove_duplicates` -/
structure DedupCfg where
  scan : Scan
  cmp : Cmp
  deletesTraining : Bool
  deletesResponse : Bool
  updatesNPoints : Bool
  deriving DecidableEq, Repr

/-- the repaired code -/
def DedupCfg.repaired : DedupCfg := ⟨.retained, .lt, true, true, true⟩
/-- the code before the repair (DESIGN §6 #10) -/
def DedupCfg.original : DedupCfg := ⟨.pairs true, .lt, true, true, true⟩

section dedup
variable {α : Type} [Add α] [Sub α] [Mul α] [Div α] [NatCast α] [LT α] [LE α]
  [DecidableLT α] [DecidableLE α]

/-- `sqrt(ss) cmp cutoff` decided on squares -/
def within (cmp : Cmp) (cutoff ss : α) : Bool :=
  match cmp with
  | .lt => decide (((0 : Nat) : α) < cutoff) && decide (ss < cutoff * cutoff)
  | .le => decide (((0 : Nat) : α) ≤ cutoff) && decide (ss ≤ cutoff * cutoff)

/-- the test of the inner loop on rows `i`, `j` of the table -/
def closeRows (cmp : Cmp) (cutoff : α) (t : List (List α)) (i j : Nat) : Bool :=
  within cmp cutoff (sqDist (t.getD i []) (t.getD j []))

/-- `repeated_points` as computed by the scan variant -/
def repeatedPoints (cfg : DedupCfg) (cutoff : α) (t : List (List α)) (n : Nat) : List Nat :=
  match cfg.scan with
  | .retained => (scanRetained (closeRows cfg.cmp cutoff t) (List.range n) [] []).2
  | .pairs brk => scanPairs brk (closeRows cfg.cmp cutoff t) n

end dedup

/-! ### the store -/

structure Stats (β : Type) where
  std : β
  mean : β
  min : β
  max : β
  deriving Repr

/-- which cached counts the data-replacing methods refresh (read from the source by the translator) -/
structure CountCfg where
  readSetsPoints : Bool      -- `read_data`: `self.n_points = self.training.shape[0]`
  readSetsDims : Bool        -- `read_data`: `self.n_dims = self.training.shape[1]`
  appendSetsPoints : Bool    -- `append_data`: `self.n_points = self.training.shape[0]`
  subsetSetsDims : Bool      -- `feature_subset`: `self.n_dims = …shape[1]`
  deriving DecidableEq, Repr

def CountCfg.std : CountCfg := ⟨true, true, true, true⟩

structure Data (α : Type) where
  training : List (List α)
  response : List α
  nPoints : Nat
  nDims : Nat
  respProps : Stats α
  trainProps : Stats (List α)
  deriving Repr

namespace Data
variable {α : Type} [Add α] [Sub α] [Mul α] [Div α] [NatCast α]

/-- `ModelData.__init__` after `read_data`: counts from the shapes, statistics zeroed -/
def init (t : List (List α)) (r : List α) (d : Nat) : Data α :=
  let z : α := ((0 : Nat) : α)
  { training := t, response := r, nPoints := t.length, nDims := d,
    respProps := ⟨z, z, z, z⟩,
    trainProps := ⟨List.replicate d z, List.replicate d z, List.replicate d z, List.replicate d z⟩ }

/-- `read_data` called on an object that already holds a dataset (the example scripts do this in a loop:
    read, subset, de-duplicate, normalise): both arrays are replaced; the stored statistics are left alone -/
def readData (cfg : CountCfg) (s : Data α) (t : List (List α)) (r : List α) (d : Nat) : Data α :=
  { s with training := t, response := r,
           nPoints := if cfg.readSetsPoints then t.length else s.nPoints,
           nDims := if cfg.readSetsDims then d else s.nDims }

/-- `append_data` -/
def appendData (s : Data α) (newT : List (List α)) (newR : List α) : Data α :=
  { s with training := s.training ++ newT, response := s.response ++ newR,
           nPoints := (s.training ++ newT).length }

/-- `standardise_response`; `σ` stands for `np.std(self.response)` -/
def standardiseResponse (σ : α) (s : Data α) : Data α :=
  let m := mean s.response
  { s with respProps := { s.respProps with mean := m, std := σ },
           response := s.response.map (fun x => stdF x m σ) }

def unstandardiseResponse (s : Data α) : Data α :=
  { s with response := s.response.map (fun x => unstdF x s.respProps.mean s.respProps.std) }

/-- `standardise_training`; `σs` stands for `np.std(self.training, axis=0)` -/
def standardiseTraining (σs : List α) (s : Data α) : Data α :=
  let ms := colStat mean s.nDims s.training
  { s with trainProps := { s.trainProps with mean := ms, std := σs },
           training := s.training.map (fun r => zip3With stdF r ms σs) }

def unstandardiseTraining (s : Data α) : Data α :=
  let f := fun r => zip3With unstdF r s.trainProps.mean s.trainProps.std
  { s with training := s.training.map f }

variable [LT α] [DecidableLT α]

def normaliseResponse (s : Data α) : Data α :=
  let lo := minList s.response
  let hi := maxList s.response
  { s with respProps := { s.respProps with min := lo, max := hi },
           response := s.response.map (fun x => normF x lo hi) }

def unnormaliseResponse (s : Data α) : Data α :=
  { s with response := s.response.map (fun x => unnormF x s.respProps.min s.respProps.max) }

def normaliseTraining (s : Data α) : Data α :=
  let los := colStat minList s.nDims s.training
  let his := colStat maxList s.nDims s.training
  { s with trainProps := { s.trainProps with min := los, max := his },
           training := s.training.map (fun r => zip3With normF r los his) }

def unnormaliseTraining (s : Data α) : Data α :=
  let f := fun r => zip3With unnormF r s.trainProps.min s.trainProps.max
  { s with training := s.training.map f }

/-- `limit_response_maximum` = `np.clip(response, None, upper)` -/
def limitResponseMaximum (upper : α) (s : Data α) : Data α :=
  { s with response := s.response.map (fun x => if upper < x then upper else x) }

/-- `feature_subset`: `training[:, features]`, `n_dims = len(features)`; the statistics
    dictionaries are *not* touched (as in the code). -/
def featureSubset (features : List Nat) (s : Data α) : Data α :=
  { s with training := s.training.map (fun r => features.map (fun f => r.getD f ((0 : Nat) : α))),
           nDims := features.length }

variable [LE α] [DecidableLE α]

/-- `remove_duplicates(dist_cutoff)`: the scan over `range(self.n_points)` computes
    `repeated_points`, then `np.delete` on both arrays and `n_points` from the new shape. -/
def removeDuplicates (cfg : DedupCfg) (cutoff : α) (s : Data α) : Data α :=
  let rep := repeatedPoints cfg cutoff s.training s.nPoints
  let t' := if cfg.deletesTraining then npDelete s.training rep else s.training
  let r' := if cfg.deletesResponse then npDelete s.response rep else s.response
  { s with training := t', response := r',
           nPoints := if cfg.updatesNPoints then t'.length else s.nPoints }

end Data

/-! ### what the translator reads from the eight transform methods -/

inductive Key where
  | std | mean | min | max
  deriving DecidableEq, Repr

inductive StatFn where
  | mean | std | var | min | max | other
  deriving DecidableEq, Repr

/-- `self.<props>[key] = fn(self.<array>[, axis=0])` -/
structure StatWrite where
  key : Key
  fn : StatFn
  /-- the statistic is taken of the method's own array (response for `*_response`, …) -/
  ofOwnArray : Bool
  /-- taken along axis 0 of the 2-d training array (one value per feature) -/
  perFeature : Bool
  deriving DecidableEq, Repr

/-- one transform method: the statistics it stores (before re-assigning the array, sorted by
    key) and the element-wise formula assigned to its own array, over the variables
    `v0` = the array, `v1..v4` = `std, mean, min, max` of its own statistics dictionary
    (`v5` = the other array, `v6..v9` = the other dictionary: never expected). -/
structure Xform where
  writes : List StatWrite
  formula : TopSearch.Py.E
  deriving DecidableEq, Repr

/-! ### the update cycle of `GaussianProcess` -/

/-- the condition a step of `add_data` / `lowest_point` / `prepare_training_data` sits under -/
inductive Cond where
  | always | ifStdTraining | ifStdResponse | ifLimit
  deriving DecidableEq, Repr

/-- the `model_data` call (or `np.min` of the response) a step performs -/
inductive Act where
  | unstdTraining | unstdResponse | append | stdTraining | stdResponse | takeMin | limitMax
  | other
  deriving DecidableEq, Repr

abbrev Step := Cond × Act

/-- the code as read (and as the translator must find it again) -/
def prepareSteps : List Step :=
  [(.ifStdTraining, .stdTraining), (.ifLimit, .limitMax), (.ifStdResponse, .stdResponse)]
def addDataSteps : List Step :=
  [(.ifStdTraining, .unstdTraining), (.ifStdResponse, .unstdResponse), (.always, .append),
   (.ifStdTraining, .stdTraining), (.ifStdResponse, .stdResponse)]
def lowestSteps : List Step :=
  [(.ifStdResponse, .unstdResponse), (.always, .takeMin), (.ifStdResponse, .stdResponse)]

/-- what one call consumes from outside: the new rows, and the standard deviations numpy
    computes inside the standardise calls (parameters, see the header), the clip level -/
structure Inputs (α : Type) where
  newT : List (List α)
  newR : List α
  σT : List α
  σR : α
  upper : α

structure GP (α : Type) where
  data : Data α
  stdT : Bool
  stdR : Bool
  limit : Bool
  deriving Repr

section gp
variable {α : Type} [Add α] [Sub α] [Mul α] [Div α] [NatCast α] [LT α] [DecidableLT α]

def Cond.holds (g : GP α) : Cond → Bool
  | .always => true
  | .ifStdTraining => g.stdT
  | .ifStdResponse => g.stdR
  | .ifLimit => g.limit

/-- one step on (data, value returned so far) -/
def applyAct (inp : Inputs α) (a : Act) (d : Data α × Option α) : Data α × Option α :=
  match a with
  | .unstdTraining => (d.1.unstandardiseTraining, d.2)
  | .unstdResponse => (d.1.unstandardiseResponse, d.2)
  | .append => (d.1.appendData inp.newT inp.newR, d.2)
  | .stdTraining => (d.1.standardiseTraining inp.σT, d.2)
  | .stdResponse => (d.1.standardiseResponse inp.σR, d.2)
  | .takeMin => (d.1, some (minList d.1.response))
  | .limitMax => (d.1.limitResponseMaximum inp.upper, d.2)
  | .other => d

def runSteps (g : GP α) (inp : Inputs α) : List Step → Data α × Option α → Data α × Option α
  | [], d => d
  | (c, a) :: rest, d => runSteps g inp rest (if c.holds g then applyAct inp a d else d)

/-- `GaussianProcess.__init__` up to the fit: `prepare_training_data` -/
def GP.create (steps : List Step) (d : Data α) (stdT stdR limit : Bool) (inp : Inputs α) : GP α :=
  let g : GP α := ⟨d, stdT, stdR, limit⟩
  { g with data := (runSteps g inp steps (d, none)).1 }

/-- `GaussianProcess.add_data` -/
def GP.addData (steps : List Step) (g : GP α) (inp : Inputs α) : GP α :=
  { g with data := (runSteps g inp steps (g.data, none)).1 }

/-- `GaussianProcess.lowest_point`: new state and returned value -/
def GP.lowestPoint (steps : List Step) (g : GP α) (inp : Inputs α) : GP α × Option α :=
  let r := runSteps g inp steps (g.data, none)
  ({ g with data := r.1 }, r.2)

/-- the dataset in original units: undo the current scaling with the stored statistics -/
def GP.origT (g : GP α) : List (List α) :=
  if g.stdT then g.data.unstandardiseTraining.training else g.data.training
def GP.origR (g : GP α) : List α :=
  if g.stdR then g.data.unstandardiseResponse.response else g.data.response

/-- the operations of the Bayesian-optimisation loop -/
inductive Op (α : Type) where
  | add (newT : List (List α)) (newR : List α) (σT : List α) (σR : α)
  | lowest (σR : α)

def Op.inputs : Op α → Inputs α
  | .add t r σT σR => ⟨t, r, σT, σR, ((0 : Nat) : α)⟩
  | .lowest σR => ⟨[], [], [], σR, ((0 : Nat) : α)⟩

/-- one operation with the step lists read from the source -/
def GP.step (addS lowS : List Step) (g : GP α) (op : Op α) : GP α :=
  match op with
  | .add .. => g.addData addS op.inputs
  | .lowest .. => (g.lowestPoint lowS op.inputs).1

def GP.run (addS lowS : List Step) (g : GP α) (ops : List (Op α)) : GP α :=
  ops.foldl (GP.step addS lowS) g

/-- rows / responses added by an operation list, in order -/
def addedT : List (Op α) → List (List α)
  | [] => []
  | .add t _ _ _ :: ops => t ++ addedT ops
  | .lowest _ :: ops => addedT ops
def addedR : List (Op α) → List α
  | [] => []
  | .add _ r _ _ :: ops => r ++ addedR ops
  | .lowest _ :: ops => addedR ops

end gp

end TopSearch.ModelData
