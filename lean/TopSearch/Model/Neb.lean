/-
  TopSearch.Model.Neb — the nudged elastic band as `NudgedElasticBand` computes it
  (src/topsearch/transition_states/nudged_elastic_band.py).  Core Lean only.

  Every definition is generic in the number type `α` (minimal operation classes), so the
  same definition is executed at `Rat` by `Drivers/Neb.lean` and proved over ordered fields in
  `Props/C09.lean`.  `sqrt` (inside `np.linalg.norm`) and `int()` are never interpreted: they are
  parameters (`sqrt`, `trunc`).  The true potential (`potential.function_gradient`) and the
  optimiser (scipy L-BFGS-B behind `lbfgs.minimise`) are external: their answers are inputs.

  The model mirrors the code that exists — including the sign of the spring term, which is
  inverted relative to the tangent convention (DESIGN.md §6 row 12).  The literal in front of
  `np.diff(distances)` is the parameter `c1` (the code has `-1.0`), read from the source by the
  translator, so that the theorems can speak about both the coded and the repaired sign.

  Vectors are `List α`, a band is a list of rows.
-/
namespace TopSearch.Neb

/-! ### vectors -/
section vec
variable {α : Type}

def zeros [Zero α] (d : Nat) : List α := List.replicate d 0
def vadd [Add α] (a b : List α) : List α := List.zipWith (· + ·) a b
def vsub [Sub α] (a b : List α) : List α := List.zipWith (· - ·) a b
def vneg [Neg α] (a : List α) : List α := a.map (- ·)
/-- `c * v` -/
def smul [Mul α] (c : α) (a : List α) : List α := a.map (c * ·)
/-- `v * c` -/
def vscale [Mul α] (a : List α) (c : α) : List α := a.map (· * c)
/-- `v / c` -/
def vdiv [Div α] (a : List α) (c : α) : List α := a.map (· / c)
def dot [Zero α] [Add α] [Mul α] (a b : List α) : α := (List.zipWith (· * ·) a b).sum
/-- `np.linalg.norm v = sqrt (Σ vᵢ²)`; `sqrt` is a parameter -/
def norm [Zero α] [Add α] [Mul α] (sqrt : α → α) (v : List α) : α := sqrt (dot v v)

/-- multiplication by the literal `±1.0` read from the source -/
def sgn [Neg α] (c : Int) (x : α) : α := if c < 0 then -x else x

end vec

/-! ### image count and interpolation -/

/-- `if n < 10: n = 10 / elif n > max_images: n = max_images` -/
def clamp (maxImages raw : Int) : Int :=
  if raw < 10 then 10 else if raw > maxImages then maxImages else raw

/-- the guard of both `update_image_density` and `revert_image_density` in
    `initial_interpolation` -/
def retryGuard (attempts : Int) : Bool := decide (attempts > 0)

section interp
variable {α : Type} [Zero α] [Add α] [Sub α] [Mul α] [Div α] [NatCast α] [IntCast α]

/-- `n_images = int(image_density*dist)` followed by the clamp -/
def imageCount (trunc : α → Int) (maxImages : Int) (density dist : α) : Nat :=
  (clamp maxImages (trunc (density * dist))).toNat

/-- the literal `1.5` of `update_image_density` -/
def retryFactor : α := ((3 : Nat) : α) / ((2 : Nat) : α)

/-- `original_image_density*1.5*attempts` -/
def retryDensity (orig : α) (attempts : Int) : α := orig * retryFactor * (attempts : α)

/-- `band[i,:] = x₁ + ((x₂ − x₁)/(n−1))·i` for `i = 0..n−1` -/
def linInterp (x1 x2 : List α) (n : Nat) : List (List α) :=
  let dir := vdiv (vsub x2 x1) (((n - 1 : Nat)) : α)
  (List.range n).map (fun i => vadd x1 (vscale dir ((i : Nat) : α)))

/-- the object: configuration (`forceConstant`, `maxImages`, `originalDensity`; the potential
    and the convergence criterion live in the oracles) and the mutable attributes -/
structure Obj (α : Type) where
  forceConstant : α
  maxImages : Int
  originalDensity : α
  imageDensity : α
  nImages : Option Nat := none
  bandBounds : Option (List (α × α)) := none
  forceConstants : Option (List α) := none
  nebCount : Nat := 0
  deriving Repr

/-- `__init__` -/
def Obj.fresh (k density : α) (maxImages : Int) : Obj α :=
  { forceConstant := k, maxImages := maxImages, originalDensity := density,
    imageDensity := density }

def Obj.updateDensity (o : Obj α) (attempts : Int) : Obj α :=
  { o with imageDensity := retryDensity o.originalDensity attempts }

def Obj.revertDensity (o : Obj α) : Obj α :=
  { o with imageDensity := o.originalDensity }

/-- `linear_interpolation`: sets `n_images`, returns the band -/
def Obj.linearInterpolation (trunc : α → Int) (sqrt : α → α) (o : Obj α) (x1 x2 : List α) :
    Obj α × List (List α) :=
  let dist := norm sqrt (vsub x1 x2)
  let n := imageCount trunc o.maxImages o.imageDensity dist
  ({ o with nImages := some n }, linInterp x1 x2 n)

/-- `box*n_images`: the box repeated once per image -/
def repeatBox (box : List (α × α)) (n : Nat) : List (α × α) :=
  (List.replicate n box).flatten

/-- `get_force_constants` -/
def forceConstantsOf (k : α) (n : Nat) : List α := List.replicate (n - 1) k

/-- `initial_interpolation` for non-molecular coordinates -/
def Obj.initialInterpolation (trunc : α → Int) (sqrt : α → α) (o : Obj α)
    (x1 x2 : List α) (box : List (α × α)) (attempts : Int) : Obj α × List (List α) :=
  let o1 := if retryGuard attempts then o.updateDensity attempts else o
  let (o2, band) := o1.linearInterpolation trunc sqrt x1 x2
  let o3 := if retryGuard attempts then o2.revertDensity else o2
  let n := o3.nImages.getD 0
  ({ o3 with bandBounds := some (repeatBox box n),
             forceConstants := some (forceConstantsOf o3.forceConstant n) }, band)

end interp

/-! ### candidates -/
section cand
variable {α : Type} [Zero α] [LE α] [DecidableLE α]

/-- `for i in range(1, n_images-1): if e[i] >= e[i+1] and e[i] >= e[i-1]` -/
def candidateIdx (n : Nat) (e : List α) : List Nat :=
  (List.range' 1 (n - 2)).filter
    (fun i => decide (e.getD i 0 ≥ e.getD (i + 1) 0) && decide (e.getD i 0 ≥ e.getD (i - 1) 0))

/-- `find_ts_candidates`: indices and the rows of the band at those indices -/
def findTsCandidates (n : Nat) (band : List (List α)) (e : List α) : List Nat × List (List α) :=
  let c := candidateIdx n e
  (c, c.map (fun i => band.getD i []))

end cand

/-! ### tangents -/
section tangent
variable {α : Type} [Zero α] [Add α] [Sub α] [Mul α] [Div α] [Neg α]
  [LT α] [LE α] [DecidableLT α] [DecidableLE α] [DecidableEq α]

/-- `np.sign(x).astype(int)` -/
def sign (x : α) : Int := if 0 < x then 1 else if x < 0 then -1 else 0

def absv (x : α) : α := if x < 0 then -x else x
def maxv (a b : α) : α := if a ≤ b then b else a
def minv (a b : α) : α := if a ≤ b then a else b

/-- `-1.0*np.diff(band, axis=0)`: row `i` is `−(band[i+1] − band[i])`, pointing from image
    `i+1` to image `i` -/
def posDiffs (band : List (List α)) : List (List α) :=
  List.zipWith (fun a b => vneg (vsub b a)) band band.tail

/-- `np.diff(e)`: entry `i` is `e[i+1] − e[i]` -/
def ediffs (e : List α) : List α := List.zipWith (fun a b => b - a) e e.tail

/-- the body of the loop of `find_tangent_differences` for image `i` (before normalisation) -/
def rawTangent (d : Nat) (pd : List (List α)) (ed e : List α) (i : Nat) : List α :=
  let s0 := sign (ed.getD (i - 1) 0)
  let s1 := sign (ed.getD i 0)
  if s0 + s1 ≥ 1 then pd.getD i []
  else if s0 + s1 ≤ -1 then pd.getD (i - 1) []
  else if s0 + s1 = 0 then
    if s0 = 0 ∨ s1 = 0 then pd.getD (i - 1) []
    else
      let vec1 := pd.getD i []
      let vec2 := pd.getD (i - 1) []
      let a0 := absv (ed.getD (i - 1) 0)
      let a1 := absv (ed.getD i 0)
      let vmax := maxv a0 a1
      let vmin := minv a0 a1
      if e.getD (i + 1) 0 ≥ e.getD (i - 1) 0 then vadd (vscale vec1 vmax) (vscale vec2 vmin)
      else vadd (vscale vec1 vmin) (vscale vec2 vmax)
  else zeros d

/-- `np.divide(t, |t|, out=zeros, where=|t| != 0)` for one row -/
def normalise (sqrt : α → α) (v : List α) : List α :=
  let r := norm sqrt v
  if r = 0 then zeros v.length else vdiv v r

/-- `find_tangent_differences`: one row per interior image `i = 1..n−2` (row `i−1`) -/
def tangents (sqrt : α → α) (n : Nat) (band : List (List α)) (e : List α) : List (List α) :=
  let d := (band.getD 0 []).length
  let pd := posDiffs band
  let ed := ediffs e
  (List.range' 1 (n - 2)).map (fun i => normalise sqrt (rawTangent d pd ed e i))

/-- `perpendicular_component(vec1, vec2)` with the `< 1e-13` cut-off (`cut`) -/
def perp (cut : α) (v t : List α) : List α :=
  let m := dot t t
  if m < cut then zeros v.length else vsub v (smul (dot v t / m) t)

/-- the part of `v` that `perp` removes -/
def removedPart (cut : α) (v t : List α) : List α :=
  let m := dot t t
  if m < cut then v else smul (dot v t / m) t

/-! ### band gradient -/

/-- `np.linalg.norm(-1.0*np.diff(band), axis=1)` -/
def distances (sqrt : α → α) (band : List (List α)) : List α :=
  (posDiffs band).map (norm sqrt)

/-- `c1*np.diff(distances)*force_constants[:-1]`: one coefficient per interior image;
    entry `i−1` is `c1·(d_i − d_{i−1})·k_{i−1}` -/
def springCoefs (c1 : Int) (ds ks : List α) : List α :=
  List.zipWith (fun dd k => sgn c1 dd * k) (ediffs ds) ks.dropLast

/-- `g_parallel[1:-1,:] = tau * coefs.reshape(-1,1)` -/
def springRows (c1 : Int) (ds ks : List α) (tau : List (List α)) : List (List α) :=
  List.zipWith vscale tau (springCoefs c1 ds ks)

/-- `potential_gradient[0,:].fill(0.0); potential_gradient[-1,:].fill(0.0)` -/
def zeroEnds (d n : Nat) (g : List (List α)) : List (List α) :=
  (g.set 0 (zeros d)).set (n - 1) (zeros d)

variable [NatCast α]

/-- `band_function_gradient`: `n = self.n_images`, `ks = self.force_constants`,
    `fg` = the answers of `potential.function_gradient` for the `n` images.
    Returns (function value, gradient rows). -/
def bandGradient (c1 : Int) (sqrt : α → α) (cut : α) (n : Nat) (ks : List α)
    (band : List (List α)) (fg : List (α × List α)) : α × List (List α) :=
  let d := (band.getD 0 []).length
  let energies := fg.map (·.1)
  let potGrad := zeroEnds d n (fg.map (·.2))
  let tau := tangents sqrt n band energies
  let ds := distances sqrt band
  let half : α := ((1 : Nat) : α) / ((2 : Nat) : α)
  let harmonic := half * (List.zipWith (fun x k => x * x * k) ds ks).sum
  let gpar := springRows c1 ds ks tau
  let rows := (List.range n).map (fun i =>
    if 1 ≤ i ∧ i < n - 1 then
      vadd (gpar.getD (i - 1) []) (perp cut (potGrad.getD i []) (tau.getD (i - 1) []))
    else zeros d)
  (harmonic + energies.sum, rows)

end tangent

/-! ### the complete search -/
section run
variable {α : Type} [Zero α] [Add α] [Sub α] [Mul α] [Div α] [NatCast α] [IntCast α]
  [LE α] [DecidableLE α]

/-- what `run` does after `minimise_interpolation` returned `band'` and the potential gave
    `energies` for its images -/
def Obj.finish (o : Obj α) (band' : List (List α)) (energies : List α) :
    Obj α × (List Nat × List (List α)) :=
  ({ o with nebCount := o.nebCount + 1 }, findTsCandidates (o.nImages.getD 0) band' energies)

/-- `run`.  `pot` is `potential.function`; `opt nImages forceConstants bounds band₀` is
    `minimise_interpolation` (L-BFGS-B applied to the band function built from the potential,
    `n_images` and `force_constants`, started at `band₀` under `bounds`). -/
def Obj.run (trunc : α → Int) (sqrt : α → α) (pot : List α → α)
    (opt : Nat → List α → List (α × α) → List (List α) → List (List α))
    (o : Obj α) (x1 x2 : List α) (box : List (α × α)) (attempts : Int) :
    Obj α × (List Nat × List (List α)) :=
  let (o1, band) := o.initialInterpolation trunc sqrt x1 x2 box attempts
  let band' := opt (o1.nImages.getD 0) (o1.forceConstants.getD []) (o1.bandBounds.getD []) band
  o1.finish band' (band'.map pot)

/-- a sequence of searches on one object; the outputs in order -/
def Obj.runs (trunc : α → Int) (sqrt : α → α) (pot : List α → α)
    (opt : Nat → List α → List (α × α) → List (List α) → List (List α)) :
    Obj α → List (List α × List α × List (α × α) × Int) →
      Obj α × List (List Nat × List (List α))
  | o, [] => (o, [])
  | o, (x1, x2, box, a) :: rest =>
    let (o1, out) := o.run trunc sqrt pot opt x1 x2 box a
    let (o2, outs) := Obj.runs trunc sqrt pot opt o1 rest
    (o2, out :: outs)

end run

end TopSearch.Neb
