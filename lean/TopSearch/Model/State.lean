/-
  TopSearch.Model.State — what "no state is carried between calls" means.  Core Lean only.

  Every hand model in this library takes an entry point of the code (`HybridEigenvectorFollowing.run`,
  `BasinHopping.run`, `test_new_ts`, `perturb`, …) as a FUNCTION of its inputs, the object's options and the
  oracle answers.  The Python object, however, has mutable attributes that survive a call.  `Entry` is the
  shape the static analysis of `harness/translate/carried.py` establishes for the current source: a call
  first overwrites (`reset`) every mutable attribute it is going to read, and only then computes (`body`).
  `Fresh` says that the overwriting does not look at what was there before — "written before read".
-/
namespace TopSearch.State

structure Entry (Mut In Out : Type) where
  /-- the assignments a call makes before it reads any mutable attribute -/
  reset : Mut → In → Mut
  /-- the rest of the call: result and the attributes it leaves behind -/
  body : Mut → In → Out × Mut

variable {Mut In Out : Type}

def Entry.call (e : Entry Mut In Out) (m : Mut) (i : In) : Out × Mut := e.body (e.reset m i) i

/-- nothing is read before it is written -/
def Entry.Fresh (e : Entry Mut In Out) : Prop := ∀ m₁ m₂ i, e.reset m₁ i = e.reset m₂ i

/-- successive calls on ONE object: the results, and what the object is left with -/
def Entry.calls (e : Entry Mut In Out) : Mut → List In → List Out × Mut
  | m, [] => ([], m)
  | m, i :: is =>
    let r := e.call m i
    let rest := e.calls r.2 is
    (r.1 :: rest.1, rest.2)

end TopSearch.State
