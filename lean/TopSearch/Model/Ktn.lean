/-
  TopSearch.Model.Ktn — the network store as `KineticTransitionNetwork` keeps it
  (src/topsearch/data/kinetic_transition_network.py).  Core Lean only.

  Labels and the two cached counters are explicit fields, exactly as in the code
  (`add_minimum` labels a node with the counter `n_minima`; `n_ts` is a counter that is
  incremented/decremented, never recomputed), so that "numbered 0..n-1" and "counts equal
  contents" are real invariants to be proved and not artefacts of a list encoding.
  `δ` is the payload of a stationary point (coordinates and energy); the store never
  looks inside it.
-/
namespace TopSearch

structure Node (δ : Type) where
  label : Nat
  data : δ
  deriving Repr, DecidableEq

structure Edge (δ : Type) where
  u : Nat
  v : Nat
  data : δ
  deriving Repr, DecidableEq

structure Ktn (δ : Type) where
  nodes : List (Node δ) := []
  edges : List (Edge δ) := []
  nMin : Nat := 0
  nTs : Nat := 0
  pairlist : List (Nat × Nat) := []
  deriving Repr

namespace Ktn
variable {δ : Type}

def empty : Ktn δ := {}

/-- an edge joins the unordered pair `{a, b}` -/
def Edge.joins (e : Edge δ) (a b : Nat) : Bool :=
  (e.u == a && e.v == b) || (e.u == b && e.v == a)

/-- an edge touches node `a` -/
def Edge.touches (e : Edge δ) (a : Nat) : Bool := e.u == a || e.v == a

def hasNode (s : Ktn δ) (a : Nat) : Bool := s.nodes.any (·.label == a)
def hasEdge (s : Ktn δ) (a b : Nat) : Bool := s.edges.any (Edge.joins · a b)

def nodeData? (s : Ktn δ) (a : Nat) : Option δ := (s.nodes.find? (·.label == a)).map (·.data)
def edgeData? (s : Ktn δ) (a b : Nat) : Option δ :=
  (s.edges.find? (Edge.joins · a b)).map (·.data)

/-- `add_minimum`: `G.add_node(n_minima, …)`, `n_minima += 1`.
    (networkx updates the attributes in place when the label already exists.) -/
def addMin (s : Ktn δ) (d : δ) : Ktn δ :=
  if s.hasNode s.nMin then
    { s with nodes := s.nodes.map (fun nd => if nd.label == s.nMin then { nd with data := d } else nd),
             nMin := s.nMin + 1 }
  else
    { s with nodes := s.nodes ++ [⟨s.nMin, d⟩], nMin := s.nMin + 1 }

/-- `add_ts`: `G.add_edge(u, v, …)` replaces the data of an existing edge of the unordered
    pair, otherwise appends.  `countOnlyNew` is the counter rule *read from the source* by the
    translator (`Gen.Ktn.addTsCountsOnlyNew`): the repaired code increments `n_ts` only for a
    new edge, the original code incremented always. -/
def addTs (countOnlyNew : Bool) (s : Ktn δ) (d : δ) (u v : Nat) : Ktn δ :=
  if s.hasEdge u v then
    { s with edges := s.edges.map (fun e => if Edge.joins e u v then { e with data := d } else e),
             nTs := if countOnlyNew then s.nTs else s.nTs + 1 }
  else
    { s with edges := s.edges ++ [⟨u, v, d⟩], nTs := s.nTs + 1 }

/-- the `new_order` mapping of `remove_minimum`: `k ↦ n`, `i ↦ i-1` for `k < i < n`. -/
def relabel (k n i : Nat) : Nat :=
  if i = k then n else if k < i ∧ i < n then i - 1 else i

def renumberPair (k : Nat) (p : Nat × Nat) : Nat × Nat :=
  (if k < p.1 then p.1 - 1 else p.1, if k < p.2 then p.2 - 1 else p.2)

/-- the history rule of `remove_minimum` (read from the source: `Gen.Ktn.removeRenumbersHistory`):
    entries naming the removed minimum disappear, the others are renumbered. -/
def historyAfterRemove (renumber : Bool) (k : Nat) (h : List (Nat × Nat)) : List (Nat × Nat) :=
  if renumber then (h.filter (fun p => p.1 != k && p.2 != k)).map (renumberPair k) else h

/-- `remove_minimum k`: relabel (`k ↦ n`, later ones shift down), subtract the number of edges
    at the node now called `n` from `n_ts`, remove that node with its edges, `n_minima -= 1`. -/
def removeMin (renumber : Bool) (s : Ktn δ) (k : Nat) : Ktn δ :=
  let n := s.nMin
  let f := relabel k n
  let nodes' := s.nodes.map (fun nd => { nd with label := f nd.label })
  let edges' := s.edges.map (fun e => { e with u := f e.u, v := f e.v })
  let incident := edges'.filter (Edge.touches · n)
  { nodes := nodes'.filter (fun nd => nd.label != n)
    edges := edges'.filter (fun e => !(Edge.touches e n))
    nMin := s.nMin - 1
    nTs := s.nTs - incident.length
    pairlist := historyAfterRemove renumber k s.pairlist }

/-- insertion sort, standing for `np.sort` (any sorting function gives the same list on `Nat`s). -/
def insertSorted (x : Nat) : List Nat → List Nat
  | [] => [x]
  | y :: ys => if x ≤ y then x :: y :: ys else y :: insertSorted x ys
def sortNat (l : List Nat) : List Nat := l.foldr insertSorted []

/-- the loop of `remove_minima`: `for c, i in enumerate(np.sort(minima)): remove_minimum(i-c)` -/
def removeLoop (renumber : Bool) (s : Ktn δ) (c : Nat) : List Nat → Ktn δ
  | [] => s
  | k :: ks => removeLoop renumber (removeMin renumber s (k - c)) (c + 1) ks

def removeMinima (renumber : Bool) (s : Ktn δ) (ks : List Nat) : Ktn δ :=
  removeLoop renumber s 0 (sortNat ks)

/-- `remove_ts`: `G.remove_edge(u, v)`, `n_ts -= 1` (the code raises when there is no such edge;
    the guard `Op.valid` excludes that case). -/
def removeTs (s : Ktn δ) (u v : Nat) : Ktn δ :=
  { s with edges := s.edges.filter (fun e => !(Edge.joins e u v)), nTs := s.nTs - 1 }

def removeTss (s : Ktn δ) (ps : List (Nat × Nat)) : Ktn δ :=
  ps.foldl (fun s p => removeTs s p.1 p.2) s

def reset (_ : Ktn δ) : Ktn δ := {}

/-- configuration of the store read from the source by the translator -/
structure Cfg where
  addTsCountsOnlyNew : Bool
  removeRenumbersHistory : Bool
  deriving Repr, DecidableEq

inductive Op (δ : Type) where
  | addMin (d : δ)
  | addTs (d : δ) (u v : Nat)
  | removeMin (k : Nat)
  | removeMinima (ks : List Nat)
  | removeTs (u v : Nat)
  | removeTss (ps : List (Nat × Nat))
  | reset
  deriving Repr

/-- the operations the property quantifies over: `add_ts` between existing minima, removal of
    existing (distinct) minima / existing edges.  Outside this guard the real code raises or
    silently creates nodes; the correspondence harness checks that on a separate stream. -/
def Op.valid (s : Ktn δ) : Op δ → Bool
  | .addMin _ => true
  | .addTs _ u v => decide (u < s.nMin) && decide (v < s.nMin)
  | .removeMin k => decide (k < s.nMin)
  | .removeMinima ks => ks.all (fun k => decide (k < s.nMin)) && decide ks.Nodup
  | .removeTs u v => s.hasEdge u v
  | .removeTss ps =>
      -- every listed edge exists and no unordered pair is listed twice
      ps.all (fun p => s.hasEdge p.1 p.2) &&
      decide (ps.Pairwise (fun p q => ¬ ((p.1 = q.1 ∧ p.2 = q.2) ∨ (p.1 = q.2 ∧ p.2 = q.1))))
  | .reset => true

def step (cfg : Cfg) (s : Ktn δ) : Op δ → Ktn δ
  | .addMin d => s.addMin d
  | .addTs d u v => s.addTs cfg.addTsCountsOnlyNew d u v
  | .removeMin k => s.removeMin cfg.removeRenumbersHistory k
  | .removeMinima ks => s.removeMinima cfg.removeRenumbersHistory ks
  | .removeTs u v => s.removeTs u v
  | .removeTss ps => s.removeTss ps
  | .reset => s.reset

/-- run a history, stopping (returning `none`) at the first operation outside the guard -/
def run (cfg : Cfg) : Ktn δ → List (Op δ) → Option (Ktn δ)
  | s, [] => some s
  | s, op :: ops => if op.valid s then run cfg (step cfg s op) ops else none

end Ktn
end TopSearch
