/-
  TopSearch.Model.Graph — the graph analyses of
    src/topsearch/analysis/graph_properties.py   (unconnected_component, are_nodes_connected,
                                                  get_connections, disconnected_height,
                                                  remove_edges_threshold)
    src/topsearch/plotting/disconnectivity.py    (get_connectivity_graph, find_parent)
    src/topsearch/analysis/roughness.py          (roughness_metric)
    src/topsearch/analysis/minima_properties.py  (get_minima_energies, np.argmin / max / min)
  Core Lean only.  A network is a node count `n` (minima are labelled `0..n-1`, C02), the
  energies `energy : Nat → α` and a list of undirected weighted edges (one per unordered pair,
  C02).  Arithmetic is generic over `α`; the driver runs it at `Rat`.

  networkx enters in two places only: `node_connected_component` / `connected_components`
  (modelled by the executable closure `reach`, proved equal to the reflexive-transitive closure
  of adjacency in Lemmas/Graph.lean) and the order in which `connected_components` lists the
  groups (by first node in insertion order = least member, since minima are added in order).
-/
namespace TopSearch.Graph

/-- comparison operators, as read from the source by the translator -/
inductive Cmp where
  | lt | le | gt | ge
  deriving DecidableEq, Repr, Inhabited

section
variable {α : Type}

def Cmp.eval [LT α] [LE α] [DecidableLT α] [DecidableLE α] : Cmp → α → α → Bool
  | .lt, a, b => decide (a < b)
  | .le, a, b => decide (a ≤ b)
  | .gt, a, b => decide (b < a)
  | .ge, a, b => decide (b ≤ a)

/-- an undirected edge (transition state) with its energy -/
structure WEdge (α : Type) where
  u : Nat
  v : Nat
  e : α
  deriving Repr

/-- what the translator reads from graph_properties.py / roughness.py -/
structure Cfg where
  /-- `if ts_energy > energy1: remove` -/
  rmCmp : Cmp := .gt
  /-- `intervals = 510` -/
  intervals : Nat := 510
  /-- `max_ts_energy + (10*(e_range/intervals))` -/
  startOffset : Nat := 10
  /-- `range(intervals+20)` -/
  iters : Nat := 530
  /-- `np.argmin` (true) / `np.argmax` (false) in unconnected_component -/
  useArgmin : Bool := true
  /-- `if ktn.n_minima in (0, 1): return 0.0` -/
  roughSmall : List Nat := [0, 1]
  /-- `if ts_energy < min_energy: barrier = 0.0` -/
  roughCmp : Cmp := .lt
  deriving DecidableEq, Repr, Inhabited

def stdCfg : Cfg := {}

def joins (x : WEdge α) (a b : Nat) : Bool :=
  (x.u == a && x.v == b) || (x.u == b && x.v == a)

/-- adjacency of the edge list -/
def adj (es : List (WEdge α)) (a b : Nat) : Bool := es.any (joins · a b)

/-! ### reachability: executable closure -/

/-- one round of frontier expansion inside `0..n-1` -/
def expand (n : Nat) (r : Nat → Nat → Bool) (S : List Nat) : List Nat :=
  (List.range n).filter (fun b => S.contains b || S.any (fun a => r a b))

/-- at most `fuel` rounds; stops as soon as a round adds nothing -/
def closure (n : Nat) (r : Nat → Nat → Bool) : Nat → List Nat → List Nat
  | 0, S => S
  | fuel + 1, S =>
    let S' := expand n r S
    if S'.length == S.length then S else closure n r fuel S'

/-- the connected component of `i` (ascending list of nodes `< n`); `n` rounds suffice -/
def reachSet (n : Nat) (r : Nat → Nat → Bool) (i : Nat) : List Nat :=
  closure n r n ((List.range n).filter (· == i))

/-- `node_j in nx.node_connected_component(G, node_i)` -/
def reach (n : Nat) (r : Nat → Nat → Bool) (i j : Nat) : Bool := (reachSet n r i).contains j

/-- `nx.connected_components`: one group per node that is the least member of its component,
    in increasing order of that member -/
def components (n : Nat) (r : Nat → Nat → Bool) : List (List Nat) :=
  (List.range n).filterMap (fun v =>
    let c := reachSet n r v
    if c.head? == some v then some c else none)

/-! ### arg-min / max / min as numpy computes them -/

/-- `np.argmin` over indices `0..k`: first index on ties -/
def argminUpTo [LT α] [DecidableLT α] (f : Nat → α) : Nat → Nat
  | 0 => 0
  | k + 1 => let b := argminUpTo f k; if f (k + 1) < f b then k + 1 else b

/-- `np.argmax` over indices `0..k`: first index on ties -/
def argmaxUpTo [LT α] [DecidableLT α] (f : Nat → α) : Nat → Nat
  | 0 => 0
  | k + 1 => let b := argmaxUpTo f k; if f b < f (k + 1) then k + 1 else b

/-- `np.min(energies)` / `np.max(energies)` over `0..n-1` (n ≥ 1) -/
def minOf [LT α] [DecidableLT α] (f : Nat → α) (n : Nat) : α := f (argminUpTo f (n - 1))
def maxOf [LT α] [DecidableLT α] (f : Nat → α) (n : Nat) : α := f (argmaxUpTo f (n - 1))

/-- `unconnected_component`: minima not connected to the (first) global minimum -/
def unconnected [LT α] [DecidableLT α] (cfg : Cfg) (n : Nat) (energy : Nat → α)
    (es : List (WEdge α)) : List Nat :=
  let m := if cfg.useArgmin then argminUpTo energy (n - 1) else argmaxUpTo energy (n - 1)
  (List.range n).filter (fun v => !(reach n (adj es) m v))

/-! ### removing transition states above a threshold; the descending scan -/

section scan
variable [LT α] [LE α] [DecidableLT α] [DecidableLE α]

/-- `remove_edges_threshold(H, energy1)`: drop every edge with `ts_energy > energy1` -/
def removeAbove (c : Cmp) (H : List (WEdge α)) (E : α) : List (WEdge α) :=
  H.filter (fun x => !(c.eval x.e E))

/-- the reference: keep the edges with energy `≤ E` -/
def filterLE (es : List (WEdge α)) (E : α) : List (WEdge α) :=
  es.filter (fun x => decide (x.e ≤ E))

/-- the loop of `disconnected_height`: `H` is narrowed cumulatively; `none` = the `1e10` sentinel -/
def scanLoop (c : Cmp) (n i j : Nat) (t : Nat → α) : Nat → Nat → List (WEdge α) → Option α
  | 0, _, _ => none
  | fuel + 1, k, H =>
    let H' := removeAbove c H (t k)
    if reach n (adj H') i j then scanLoop c n i j t fuel (k + 1) H' else some (t k)

variable [Add α] [Sub α] [Mul α] [Div α] [NatCast α]

/-- `energy = initial_energy - (k*(e_range/intervals))` with
    `initial_energy = max_ts_energy + (10*(e_range/intervals))` -/
def thr (cfg : Cfg) (maxTs eRange : α) (k : Nat) : α :=
  (maxTs + (cfg.startOffset : α) * (eRange / (cfg.intervals : α)))
    - (k : α) * (eRange / (cfg.intervals : α))

/-- `disconnected_height(ktn, i, j, max_ts_energy, e_range)`; `none` is the sentinel `1e10` -/
def height (cfg : Cfg) (n : Nat) (es : List (WEdge α)) (i j : Nat) (maxTs eRange : α) : Option α :=
  if reach n (adj es) i j then
    scanLoop cfg.rmCmp n i j (thr cfg maxTs eRange) cfg.iters 0 es
  else none

/-! ### the level hierarchy of `get_connectivity_graph` -/

/-- cut-off of level `i`: `start` for level 0, `start - (i*spacing)` below,
    `spacing = (start - finish)/levels` -/
def levelThr (start finish : α) (levels : Nat) (i : Nat) : α :=
  if i = 0 then start else start - (i : α) * ((start - finish) / (levels : α))

/-- the graph `H` after the removals of levels `0..i` (cumulative, as in the code) -/
def cumEdges (c : Cmp) (t : Nat → α) (es : List (WEdge α)) : Nat → List (WEdge α)
  | 0 => removeAbove c es (t 0)
  | i + 1 => removeAbove c (cumEdges c t es i) (t (i + 1))

/-- groups of level `i` -/
def levelGroups (c : Cmp) (n : Nat) (t : Nat → α) (es : List (WEdge α)) (i : Nat) : List (List Nat) :=
  components n (adj (cumEdges c t es i))

/-- `find_parent`: the first group of the previous level that contains `member` -/
def findParent (prev : List (List Nat)) (member : Nat) : Option Nat :=
  prev.findIdx? (·.contains member)

/-- one level: its groups, each with the index (in the previous level's list) of its parent -/
def levelWithParents (c : Cmp) (n : Nat) (t : Nat → α) (es : List (WEdge α)) (i : Nat) :
    List (List Nat × Option Nat) :=
  (levelGroups c n t es i).map (fun g =>
    (g, match i, g.head? with
        | i' + 1, some m => findParent (levelGroups c n t es i') m
        | _, _ => none))

/-- levels `0..levels` -/
def hierarchy (c : Cmp) (n : Nat) (es : List (WEdge α)) (start finish : α) (levels : Nat) :
    List (List (List Nat × Option Nat)) :=
  (List.range (levels + 1)).map (levelWithParents c n (levelThr start finish levels) es)

end scan

/-! ### roughness -/

/-- an edge with the two populations `get_population(ktn, u, v)` (seen from `u`) and
    `get_population(ktn, v, u)` (seen from `v`): values of an RBF kernel (`np.exp`), abstract here -/
structure REdge (α : Type) where
  u : Nat
  v : Nat
  e : α
  pu : α
  pv : α
  deriving Repr

section rough
variable [LT α] [LE α] [DecidableLT α] [DecidableLE α] [Add α] [Sub α] [Mul α] [Div α] [Zero α] [NatCast α]

/-- `barrier = ts_energy - min_energy; if ts_energy < min_energy: barrier = 0.0` -/
def barrier (c : Cmp) (ts mn : α) : α := if c.eval ts mn then 0 else ts - mn

/-- what edge `x` adds to the inner loop of minimum `i`: `G.edges(i)` lists every edge at `i`
    once (a self-connection once) -/
def contribAt (c : Cmp) (energy : Nat → α) (i : Nat) (x : REdge α) : α :=
  if x.u == i then x.pu * barrier c x.e (energy i)
  else if x.v == i then x.pv * barrier c x.e (energy i)
  else 0

/-- `frustration` before the division -/
def frustration (c : Cmp) (n : Nat) (energy : Nat → α) (es : List (REdge α)) : α :=
  ((List.range n).map (fun i => (es.map (contribAt c energy i)).sum)).sum

/-- `roughness_metric` -/
def roughness (cfg : Cfg) (n : Nat) (energy : Nat → α) (es : List (REdge α)) : α :=
  if cfg.roughSmall.contains n then 0 else frustration cfg.roughCmp n energy es / (n : α)

end rough
end

end TopSearch.Graph
