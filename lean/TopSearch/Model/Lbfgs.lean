/-
  TopSearch.Model.Lbfgs — `minimise` (src/topsearch/minimisation/lbfgs.py): a forwarding
  wrapper around `scipy.optimize.fmin_l_bfgs_b`.  Core Lean only.

  * `CallRecord` is what the wrapper *says*: which wrapper parameter or literal is bound to which
    keyword of the callee, the `args is None → []` default, and what is returned.  The translator
    regenerates it from the source (`Gen.Lbfgs.call`); `expectedCall` is what was read.
  * `interp` gives the record its meaning: the actual argument bundle the callee receives.
  * The optimiser itself is an *oracle* `opt : Callee → Result`; nothing is modelled of it.
    `LBFGSB opt` is its contract (validated on the real library by harness/props/c10.py).
  * Projected gradient: scipy's definition (subroutine `projgr` of L-BFGS-B 3.0, which scipy
    1.13 wraps): for a coordinate with gradient `g < 0` and an upper bound `u`,
    `max (x - u) g`; with `g ≥ 0` and a lower bound `l`, `min (x - l) g`; otherwise `g`.
    For `x` in the box this is `x − clip(x − g, l, u)` (`Props.C10.C10_projgrad_clip`).
-/
namespace TopSearch.Lbfgs

/-- parameters of `minimise` -/
inductive Param where
  | funcGrad | initialPosition | bounds | convCrit | historySize | nSteps | args
  deriving DecidableEq, Repr

/-- keywords of `fmin_l_bfgs_b` (scipy 1.13 signature order) -/
inductive Kw where
  | func | x0 | fprime | args | approxGrad | bounds | m | factr | pgtol | epsilon | iprint
  | maxfun | maxiter | disp | callback | maxls | unknown
  deriving DecidableEq, Repr

/-- the value expression bound to a keyword: a wrapper parameter, a numeric literal `n/d`
    (decimal literals are read exactly: `1e-30` is `1/10^30`), or something else -/
inductive Val where
  | param (p : Param)
  | lit (n : Int) (d : Nat)
  | other
  deriving DecidableEq, Repr

/-- what is returned: component `i` of the callee's result triple, or something else -/
inductive Ret where
  | calleeResult (i : Nat)
  | other
  deriving DecidableEq, Repr

structure CallRecord where
  /-- the callee is `scipy.optimize.fmin_l_bfgs_b` -/
  calleeIsFminLbfgsb : Bool
  /-- keyword bindings in signature order (positional arguments are mapped to their keyword) -/
  kwargs : List (Kw × Val)
  /-- `if args is None: args = []` precedes the call -/
  argsNoneBecomesEmpty : Bool
  /-- the callee is called exactly once and nothing else touches its result -/
  singleCall : Bool
  returns : List Ret
  deriving DecidableEq, Repr

/-- the wrapper as read from the source -/
def expectedCall : CallRecord :=
  { calleeIsFminLbfgsb := true
    kwargs := [(.func, .param .funcGrad), (.x0, .param .initialPosition), (.args, .param .args),
               (.bounds, .param .bounds), (.m, .param .historySize),
               (.factr, .lit 1 1000000000000000000000000000000), (.pgtol, .param .convCrit),
               (.maxiter, .param .nSteps), (.maxls, .lit 40 1)]
    argsNoneBecomesEmpty := true
    singleCall := true
    returns := [.calleeResult 0, .calleeResult 1, .calleeResult 2] }

/-! ### meaning of a call record -/

/-- bounds of one coordinate: `None` = unbounded on that side -/
abbrev Bound (α : Type) := Option α × Option α

/-- objective: position and extra arguments ↦ (value, gradient); `ι` is the type of an extra
    argument (opaque) -/
abbrev Objective (α ι : Type) := List α → List ι → α × List α

/-- what the caller passes to `minimise` -/
structure Wrapper (α ι : Type) where
  funcGrad : Objective α ι
  initialPosition : List α
  bounds : List (Bound α)
  convCrit : α
  historySize : Nat
  nSteps : Nat
  args : Option (List ι)

/-- what `fmin_l_bfgs_b` receives (the keywords the wrapper binds; all others keep scipy's defaults) -/
structure Callee (α ι : Type) where
  func : Objective α ι
  x0 : List α
  bounds : List (Bound α)
  m : Nat
  args : List ι
  factr : α
  pgtol : α
  maxiter : Nat
  maxls : Nat

/-- why the optimiser stopped (the `task` string of the info dictionary) -/
inductive Task where
  | convPgtol        -- CONVERGENCE: NORM_OF_PROJECTED_GRADIENT_<=_PGTOL
  | convRelReduction -- CONVERGENCE: REL_REDUCTION_OF_F_<=_FACTR*EPSMCH
  | stopLimit        -- STOP: TOTAL NO. of ITERATIONS / f AND g EVALUATIONS REACHED LIMIT
  | abnormal
  deriving DecidableEq, Repr

structure Info (α ι : Type) where
  warnflag : Nat
  task : Task
  grad : List α
  /-- every call of the objective the optimiser made: (position, extra arguments) -/
  calls : List (List α × List ι)

structure Result (α ι : Type) where
  x : List α
  f : α
  info : Info α ι

abbrev Oracle (α ι : Type) := Callee α ι → Result α ι

section
variable {α ι : Type}

def lookup (k : Kw) : List (Kw × Val) → Option Val
  | [] => none
  | (k', v) :: rest => if k' = k then some v else lookup k rest

variable [NatCast α] [IntCast α] [Div α]

def litVal (n : Int) (d : Nat) : α := ((n : Int) : α) / ((d : Nat) : α)

/-- meaning of a call record: the argument bundle the callee receives.  `none` when a keyword
    is bound to something of the wrong kind or a keyword the wrapper must bind is missing. -/
def interp (c : CallRecord) (w : Wrapper α ι) : Option (Callee α ι) := do
  let args : List ι := match w.args with
    | some a => a
    | none => []
  if !(c.calleeIsFminLbfgsb && c.argsNoneBecomesEmpty && c.singleCall) then none
  if c.kwargs.any (fun kv => kv.1 ∈ [Kw.fprime, .approxGrad, .epsilon, .iprint, .maxfun, .disp,
      .callback, .unknown]) then none
  let func ← match lookup .func c.kwargs with
    | some (.param .funcGrad) => some w.funcGrad
    | _ => none
  let x0 ← match lookup .x0 c.kwargs with
    | some (.param .initialPosition) => some w.initialPosition
    | _ => none
  let bounds ← match lookup .bounds c.kwargs with
    | some (.param .bounds) => some w.bounds
    | _ => none
  let nat : Kw → Option Nat := fun k => match lookup k c.kwargs with
    | some (.param .historySize) => some w.historySize
    | some (.param .nSteps) => some w.nSteps
    | some (.lit n 1) => if 0 ≤ n then some n.toNat else none
    | _ => none
  let num : Kw → Option α := fun k => match lookup k c.kwargs with
    | some (.param .convCrit) => some w.convCrit
    | some (.lit n d) => some (litVal n d)
    | _ => none
  let a ← match lookup .args c.kwargs with
    | some (.param .args) => some args
    | _ => none
  some { func := func, x0 := x0, bounds := bounds, m := ← nat .m, args := a,
         factr := ← num .factr, pgtol := ← num .pgtol, maxiter := ← nat .maxiter,
         maxls := ← nat .maxls }

/-- `minimise`: call the optimiser once with the interpreted arguments and return its triple
    as the record says (`none` when the record returns anything else) -/
def minimise (c : CallRecord) (opt : Oracle α ι) (w : Wrapper α ι) : Option (Result α ι) :=
  if c.returns = [.calleeResult 0, .calleeResult 1, .calleeResult 2] then
    (interp c w).map opt
  else none

end

/-! ### box, projected gradient, contract -/
section box
variable {α : Type} [LT α] [LE α] [DecidableLT α] [DecidableLE α] [Sub α] [Neg α] [NatCast α]

def inBound (b : Bound α) (x : α) : Prop :=
  (match b.1 with | some l => l ≤ x | none => True) ∧
  (match b.2 with | some u => x ≤ u | none => True)

instance (b : Bound α) (x : α) : Decidable (inBound b x) := by
  unfold inBound; cases b.1 <;> cases b.2 <;> exact inferInstance

/-- every coordinate inside its bounds (and one bound pair per coordinate) -/
def inBox : List (Bound α) → List α → Prop
  | [], [] => True
  | b :: bs, x :: xs => inBound b x ∧ inBox bs xs
  | _, _ => False

instance : (bs : List (Bound α)) → (xs : List α) → Decidable (inBox bs xs)
  | [], [] => isTrue trivial
  | b :: bs, x :: xs =>
    have := instDecidableInBox bs xs
    inferInstanceAs (Decidable (inBound b x ∧ inBox bs xs))
  | [], _ :: _ => isFalse (fun h => h)
  | _ :: _, [] => isFalse (fun h => h)

def minOf (a b : α) : α := if a ≤ b then a else b
def maxOf (a b : α) : α := if a ≤ b then b else a

/-- `projgr`, one coordinate -/
def projGrad1 (b : Bound α) (x g : α) : α :=
  if g < ((0 : Nat) : α) then
    match b.2 with
    | some u => maxOf (x - u) g
    | none => g
  else
    match b.1 with
    | some l => minOf (x - l) g
    | none => g

def projGrad : List (Bound α) → List α → List α → List α
  | b :: bs, x :: xs, g :: gs => projGrad1 b x g :: projGrad bs xs gs
  | _, _, _ => []

def absOf (a : α) : α := if a < ((0 : Nat) : α) then -a else a

/-- `sbgnrm`: the sup-norm -/
def supNorm (v : List α) : α := v.foldl (fun m a => maxOf m (absOf a)) ((0 : Nat) : α)

variable {ι : Type}

/-- The contract of the optimiser, as the property needs it.  For every call whose start point is
    inside the box: the result is inside the box; the reported value is the objective's value
    there; it is not above the value at the start; on the projected-gradient exit with
    `warnflag = 0` the projected gradient's sup-norm is at most `pgtol`; every evaluation of the
    objective received exactly the `args` that were passed in. -/
def LBFGSB (opt : Oracle α ι) : Prop :=
  ∀ c : Callee α ι, inBox c.bounds c.x0 →
    inBox c.bounds (opt c).x ∧
    (opt c).f = (c.func (opt c).x c.args).1 ∧
    (opt c).f ≤ (c.func c.x0 c.args).1 ∧
    ((opt c).info.task = .convPgtol ∧ (opt c).info.warnflag = 0 →
      supNorm (projGrad c.bounds (opt c).x (c.func (opt c).x c.args).2) ≤ c.pgtol) ∧
    (∀ call ∈ (opt c).info.calls, call.2 = c.args)

end box

end TopSearch.Lbfgs
