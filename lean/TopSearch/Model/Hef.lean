/-
  TopSearch.Model.Hef — the single-ended transition-state search as
  `HybridEigenvectorFollowing` performs it
  (src/topsearch/transition_states/hybrid_eigenvector_following.py, with
  `StandardCoordinates.active_bounds / move_to_bounds` of data/coordinates.py).
  Core Lean only; every numeric definition is generic over a type `α` with the minimal
  operation classes, so that the same definition is executed at `Rat` by Drivers/Hef.lean and
  proved over ordered fields in Props/C04.lean and Props/C15.lean.

  What is *not* interpreted: `np.sqrt` / `np.linalg.norm` (parameters `s`, `norm` with the
  contract `0 ≤ s ∧ s*s = x` as a hypothesis of the theorems and a guard of the driver), NaN
  (a Boolean flag where the code tests for it), scipy's L-BFGS-B (its answers are inputs:
  the raw eigen-pair, the subspace minimum, the descent results) and the potential (its
  values/gradients at the points the code asks for are inputs).

  The operators, `axis=` arguments, the flip rule and the literal constants are parameters
  (`Cfg`); harness/translate/hef.py reads them from the current source into Gen/Hef.lean.
-/
namespace TopSearch.Hef

/-- comparison operators as they can appear in the source (`a op b`) -/
inductive Cmp where
  | lt | le | gt | ge | eq | ne
  deriving DecidableEq, Repr

/-- how `check_eigenvector_direction` decides to flip:
    * `overlap c`      — `if np.dot(grad, v) c 0.0` (current code: `c = <`)
    * `firstComponent` — the original code: `np.sign(proj)[0] != np.sign(v)[0]` with
                          `proj = parallel_component(grad, v)`
    * `other`          — anything the translator does not recognise -/
inductive FlipRule where
  | overlap (c : Cmp)
  | firstComponent
  | other
  deriving DecidableEq, Repr

/-- values of `self.failure` -/
inductive Reason where
  | eigenvector | eigenvalue | bounds | sdPaths | pushoff | steps
  deriving DecidableEq, Repr

def Reason.str : Reason → String
  | .eigenvector => "eigenvector" | .eigenvalue => "eigenvalue" | .bounds => "bounds"
  | .sdPaths => "SDpaths" | .pushoff => "pushoff" | .steps => "steps"

/-- everything the translator reads from the source -/
structure Cfg where
  /-- `np.any(all_bounds, axis=…)` in `test_convergence` -/
  convAxis : Nat
  /-- `np.max(np.abs(grad)) < self.ts_conv_crit` -/
  convCmp : Cmp
  /-- `np.all(np.any(all_bounds, axis=…))` in `check_valid_eigenvector` -/
  validAxis : Nat
  /-- `eigenvalue == 0.0` -/
  eigenvalueCmp : Cmp
  flipRule : FlipRule
  /-- `lower_bounds[i] and vector[i] < 0.0` -/
  projLowerCmp : Cmp
  /-- `upper_bounds[i] and vector[i] > 0.0` -/
  projUpperCmp : Cmp
  /-- `ts_energy > current_energy` -/
  pushEnergyCmp : Cmp
  /-- `np.max(current_grad) > 5.0*self.steepest_descent_conv_crit` -/
  pushGradCmp : Cmp
  pushGradFactor : Nat
  /-- `for i in range(10)` in `find_pushoff` -/
  pushIncrements : Nat
  /-- the fallback `do_pushoff(…, increment, 20)` -/
  pushFallback : Nat
  /-- `increment = self.pushoff/10.0` -/
  pushDivisor : Nat
  /-- `(i[1]-i[0])*0.02` as a fraction `num/den` -/
  localFracNum : Nat
  localFracDen : Nat
  /-- `for i in range(50)` in `steepest_descent_paths` -/
  sdLoops : Nat
  /-- `eig_steps < 5` in `run` -/
  subspaceMaxEigSteps : Nat
  /-- `take_uphill_step` ends with `coords.move_to_bounds()` -/
  stepClips : Bool
  deriving DecidableEq, Repr

/-- the configuration of the repaired code (what the bridge lemmas compare `Gen` with) -/
def Cfg.current : Cfg :=
  { convAxis := 1, convCmp := .lt, validAxis := 1, eigenvalueCmp := .eq,
    flipRule := .overlap .lt, projLowerCmp := .lt, projUpperCmp := .gt,
    pushEnergyCmp := .gt, pushGradCmp := .gt, pushGradFactor := 5,
    pushIncrements := 10, pushFallback := 20, pushDivisor := 10,
    localFracNum := 1, localFracDen := 50, sdLoops := 50, subspaceMaxEigSteps := 5,
    stepClips := true }

/-- the configuration of the code before the two `fix:` commits (axis 0, first component) -/
def Cfg.original : Cfg :=
  { Cfg.current with convAxis := 0, validAxis := 0, flipRule := .firstComponent }

/-! ### Boolean masks: `np.column_stack`, `np.any(·, axis=a)`, `np.where(·)[0]` -/

/-- `np.column_stack((lo, up))`: a `d × 2` Boolean matrix, one row per coordinate -/
def columnStack (lo up : List Bool) : List (List Bool) :=
  List.zipWith (fun a b => [a, b]) lo up

/-- `np.any(m, axis=a)` for a matrix with two columns.  `a = 1` reduces each row (one answer
    per coordinate); `a = 0` reduces each of the two columns (one answer for "some lower bound
    active", one for "some upper bound active"); any other axis is numpy's `AxisError`. -/
def anyAxis (a : Nat) (m : List (List Bool)) : Option (List Bool) :=
  match a with
  | 1 => some (m.map (fun r => r.any id))
  | 0 => some [m.any (fun r => r.getD 0 false), m.any (fun r => r.getD 1 false)]
  | _ => none

/-- `np.where(mask)[0]` -/
def whereTrue (mask : List Bool) : List Nat :=
  (List.range mask.length).filter (fun i => mask.getD i false)

section numeric
variable {α : Type} [Zero α] [One α] [Add α] [Sub α] [Mul α] [Div α] [Neg α]
  [LT α] [LE α] [DecidableLT α] [DecidableLE α] [DecidableEq α] [NatCast α]

def Cmp.eval : Cmp → α → α → Bool
  | .lt, a, b => decide (a < b)
  | .le, a, b => decide (a ≤ b)
  | .gt, a, b => decide (b < a)
  | .ge, a, b => decide (b ≤ a)
  | .eq, a, b => decide (a = b)
  | .ne, a, b => decide (a ≠ b)

def absV (x : α) : α := if x < 0 then -x else x
def maxV (a b : α) : α := if a < b then b else a
def minV (a b : α) : α := if b < a then b else a

/-- `np.max` of a non-empty array (the empty case raises in numpy and is guarded by callers) -/
def maxList : List α → α
  | [] => 0
  | x :: xs => xs.foldl maxV x

def dot (a b : List α) : α := (List.zipWith (· * ·) a b).sum
def vneg (v : List α) : List α := v.map (fun x => -x)
def vscale (c : α) (v : List α) : List α := v.map (fun x => c * x)
def vdiv (v : List α) (c : α) : List α := v.map (fun x => x / c)
def vadd (a b : List α) : List α := List.zipWith (· + ·) a b
def vsub (a b : List α) : List α := List.zipWith (· - ·) a b
/-- `x + c*v` -/
def axpy (x : List α) (c : α) (v : List α) : List α := List.zipWith (fun xi vi => xi + c * vi) x v

def zip3 {β γ δ ε : Type} (f : β → γ → δ → ε) (as : List β) (bs : List γ) (cs : List δ) : List ε :=
  List.zipWith (fun a p => f a p.1 p.2) as (bs.zip cs)

/-! ### `StandardCoordinates` -/

/-- `np.clip(x, lo, up)` = `minimum(maximum(x, lo), up)` -/
def clip1 (x l u : α) : α := minV (maxV x l) u
def clip (x lo up : List α) : List α := zip3 clip1 x lo up

/-- `active_bounds`: `position <= lower_bounds`, `position >= upper_bounds` -/
def activeLower (x lo : List α) : List Bool := List.zipWith (fun xi l => decide (xi ≤ l)) x lo
def activeUpper (x up : List α) : List Bool := List.zipWith (fun xi u => decide (u ≤ xi)) x up

def inBox (x lo up : List α) : Bool :=
  x.length == lo.length && x.length == up.length &&
  (zip3 (fun xi l u => decide (l ≤ xi) && decide (xi ≤ u)) x lo up).all id

/-! ### `test_convergence` -/

/-- `grad[idx] = 0.0` with an integer index array: numpy raises `IndexError` when an index
    is outside the array -/
def zeroAt (g : List α) (idx : List Nat) : Option (List α) :=
  if idx.all (fun i => decide (i < g.length)) then
    some (g.mapIdx (fun i x => if idx.contains i then 0 else x))
  else none

/-- `test_convergence` on the gradient `g` at the point and the two active-bound masks, with
    the reduction axis and the comparison read from the source.  Mirrors the code line by
    line: column_stack → any(axis) → where → (if non-empty) zero those *indices of the
    gradient* → `np.max(np.abs(grad)) < tol`.  With `axis = 0` the index set is a subset of
    `{0, 1}` (the *columns* "lower"/"upper"), so gradient components 0/1 are zeroed — the
    original defect; for `d = 1` that can be `IndexError`.  `np.max` of an empty array is
    `ValueError`. -/
def testConvergence (axis : Nat) (cmp : Cmp) (g : List α) (lo up : List Bool) (tol : α) :
    Except String Bool :=
  match anyAxis axis (columnStack lo up) with
  | none => .error "AxisError"
  | some mask =>
    let idx := whereTrue mask
    match (if idx.length > 0 then zeroAt g idx else some g) with
    | none => .error "IndexError"
    | some g' =>
      if g'.isEmpty then .error "ValueError"
      else .ok (cmp.eval (maxList (g'.map absV)) tol)

/-! ### `check_valid_eigenvector` -/

/-- `np.all(np.any(all_bounds, axis=a))` -/
def allPinned (axis : Nat) (lo up : List Bool) : Option Bool :=
  (anyAxis axis (columnStack lo up)).map (fun m => m.all id)

/-- `check_valid_eigenvector`: `.ok none` = valid (returns `True`, `failure` untouched),
    `.ok (some r)` = refused with `self.failure = r`.  `nan` is the flag
    `np.any(np.isnan(v))` (NaN entries are truthy for `np.any(v)`, which makes no
    difference to the outcome).  Order of the tests as in the code. -/
def checkValidEigenvector (axis : Nat) (evCmp : Cmp) (v : List α) (nan : Bool) (ev : α)
    (lo up : List Bool) : Except String (Option Reason) :=
  if (!(v.any (fun x => decide (x ≠ 0)))) || nan then .ok (some .eigenvector)
  else if evCmp.eval ev 0 then .ok (some .eigenvalue)
  else match allPinned axis lo up with
    | none => .error "AxisError"
    | some true => .ok (some .bounds)
    | some false => .ok none

/-! ### `check_eigenvector_direction` -/

/-- `np.sign` -/
def sgn (x : α) : Int := if x < 0 then -1 else if 0 < x then 1 else 0

/-- component 0 of `parallel_component(g, v)`: `(g·v / v·v) * v` or zeros when `v·v < 1e-13` -/
def projFirst (small : α) (v g : List α) : α :=
  if dot v v < small then 0 else (dot g v / dot v v) * v.headD 0

/-- `check_eigenvector_direction`: the vector handed on (`none`: the flip rule was not
    recognised by the translator, or `[0]` of an empty array) -/
def checkEigenvectorDirection (rule : FlipRule) (small : α) (v g : List α) : Option (List α) :=
  match rule with
  | .overlap c => some (if c.eval (dot g v) 0 then vneg v else v)
  | .firstComponent =>
    if v.isEmpty then none
    else some (if sgn (projFirst small v g) ≠ sgn (v.headD 0) then vneg v else v)
  | .other => none

/-! ### `project_onto_bounds`, `update_eigenvector_bounds` -/

/-- one pass of the loop body of `project_onto_bounds` (the second test sees the value the
    first one may have just zeroed) -/
def zeroOutward1 (cl cu : Cmp) (x : α) (l u : Bool) : α :=
  let x1 := if l && cl.eval x 0 then 0 else x
  if u && cu.eval x1 0 then 0 else x1

def zeroOutward (cl cu : Cmp) (v : List α) (lo up : List Bool) : List α :=
  zip3 (zeroOutward1 cl cu) v lo up

/-- `project_onto_bounds`; `norm` stands for `np.linalg.norm` of the zeroed vector
    (contract `0 ≤ norm ∧ norm*norm = Σ wᵢ²`).  `none` = every component was zeroed: numpy
    divides 0/0 and hands on a NaN vector (DESIGN §6 row 13). -/
def projectOntoBounds (cl cu : Cmp) (norm : α) (v : List α) (lo up : List Bool) :
    Option (List α) :=
  let w := zeroOutward cl cu v lo up
  if norm = 0 then none else some (vdiv w norm)

inductive EigBound where
  | nonpos   -- `(-inf, 0.0)`
  | nonneg   -- `(0.0, inf)`
  | free     -- `(-inf, inf)`
  deriving DecidableEq, Repr

/-- `update_eigenvector_bounds` (upper bound tested first) -/
def updateEigenvectorBounds (lo up : List Bool) : List EigBound :=
  List.zipWith (fun l u => if u then .nonpos else if l then .nonneg else .free) lo up

def EigBound.admits : EigBound → α → Bool
  | .nonpos, x => decide (x ≤ 0)
  | .nonneg, x => decide (0 ≤ x)
  | .free, _ => true

/-! ### `analytic_step_size`, `take_uphill_step`, `get_local_bounds` -/

/-- `analytic_step_size`; `s` stands for `np.sqrt(1.0+(4.0*(overlap/eigenvalue)**2))` -/
def analyticStepSize (maxStep minStep overlap ev s : α) : α :=
  let denominator := 1 + s
  let step := if ev ≠ 0 then (((2 : Nat) : α) * overlap) / (absV ev * denominator) else 0
  if maxStep < absV step then maxStep
  else if absV step < minStep then minStep
  else step

/-- the step length `take_uphill_step` uses (`eigenvalue >= 0.0` → the fixed positive step) -/
def uphillStepLength (posStep maxStep minStep : α) (v g : List α) (ev s : α) : α :=
  if 0 ≤ ev then posStep else analyticStepSize maxStep minStep (dot g v) ev s

/-- `take_uphill_step`: `position += step*v; move_to_bounds()` (`clips` read from the source) -/
def takeUphillStep (clips : Bool) (posStep maxStep minStep : α) (x v g lo up : List α) (ev s : α) :
    List α :=
  let y := axpy x (uphillStepLength posStep maxStep minStep v g ev s) v
  if clips then clip y lo up else y

/-- `get_local_bounds` for `StandardCoordinates`: `±(up-lo)*frac` around the point, clipped -/
def getLocalBounds (frac : α) (x lo up : List α) : List (α × α) :=
  zip3 (fun xi l u => (clip1 (xi - (u - l) * frac) l u, clip1 (xi + (u - l) * frac) l u)) x lo up

/-! ### `find_pushoff` -/

/-- the point `do_pushoff(ts, v, increment, i)` followed by `move_to_bounds()` -/
def pushPoint (x v lo up : List α) (inc : α) (i : Nat) : List α :=
  clip (axpy x (inc * (i : α)) v) lo up

/-- the acceptance test of one increment:
    `(ts_energy > current_energy) and (np.max(current_grad) > 5.0*sd_conv_crit)` —
    `np.max`, not `np.max(np.abs(·))`, as in the code -/
def pushAccept (cfg : Cfg) (sdTol eTs e : α) (grad : List α) : Bool :=
  cfg.pushEnergyCmp.eval eTs e && cfg.pushGradCmp.eval (maxList grad) ((cfg.pushGradFactor : α) * sdTol)

/-- one direction of `find_pushoff`: the first `i ∈ 0..9` whose probe `(energy, gradient)` is
    accepted, else the fallback index 20 with `failure := 'pushoff'`.  (`i = 0` is no
    displacement at all.) -/
def findPushoffDir (cfg : Cfg) (sdTol eTs : α) (probe : Nat → α × List α) : Nat × Bool :=
  match (List.range cfg.pushIncrements).find? (fun i => pushAccept cfg sdTol eTs (probe i).1 (probe i).2) with
  | some i => (i, false)
  | none => (cfg.pushFallback, true)

structure Pushoff (α : Type) where
  plus : List α
  minus : List α
  iPlus : Nat
  iMinus : Nat
  failed : Bool
  deriving Repr

/-- `find_pushoff` for `StandardCoordinates`: forwards along `v`, backwards along `-1.0*v` -/
def findPushoff (cfg : Cfg) (sdTol pushoff eTs : α) (x v lo up : List α)
    (probeP probeM : Nat → α × List α) : Pushoff α :=
  let inc := pushoff / (cfg.pushDivisor : α)
  let p := findPushoffDir cfg sdTol eTs probeP
  let m := findPushoffDir cfg sdTol eTs probeM
  { plus := pushPoint x v lo up inc p.1, minus := pushPoint x (vneg v) lo up inc m.1,
    iPlus := p.1, iMinus := m.1, failed := p.2 || m.2 }

/-! ### `get_smallest_eigenvector` (the part after L-BFGS-B) -/

/-- answer of `get_smallest_eigenvector`: refusal with the reason `check_valid_eigenvector`
    stored, or `(v, λ, nit)`; `nanDirection` = the projection divided 0/0 and the caller is
    handed a NaN vector with eigenvalue `0.0` (what `rayleigh_ritz_function_gradient`
    returns for a NaN vector) -/
inductive EigAns (α : Type) where
  | refused (r : Reason)
  | ok (v : List α) (ev : α) (nit : Nat)
  | nanDirection (nit : Nat)
  deriving Repr

/-- `get_smallest_eigenvector` after the minimiser has answered `(raw, rawEv, nit)`:
    normalise (`nrm` = `np.linalg.norm(raw)`), validity, direction (gradient `g` at the point),
    and, if any bound is active, projection (`pnorm`) and the recomputed eigenvalue `evProj`. -/
def getSmallestEigenvector (cfg : Cfg) (small : α) (raw : List α) (rawEv : α) (nit : Nat)
    (nrm : α) (nan : Bool) (lo up : List Bool) (g : List α) (pnorm evProj : α) :
    Except String (EigAns α) :=
  let v := if nrm ≠ 0 then vdiv raw nrm else raw
  match checkValidEigenvector cfg.validAxis cfg.eigenvalueCmp v nan rawEv lo up with
  | .error e => .error e
  | .ok (some r) => .ok (.refused r)
  | .ok none =>
    match checkEigenvectorDirection cfg.flipRule small v g with
    | none => .error "flip-rule"
    | some v1 =>
      if lo.any id || up.any id then
        match projectOntoBounds cfg.projLowerCmp cfg.projUpperCmp pnorm v1 lo up with
        | none => .ok (.nanDirection nit)
        | some v2 => .ok (.ok v2 evProj nit)
      else .ok (.ok v1 rawEv nit)

/-! ### the control skeleton of `run` -/

/-- what one pass of the `for n_steps in range(ts_steps)` loop asks of the world.
    Fields after the first refusal / non-convergence are simply not looked at. -/
structure IterOra (α : Type) where
  /-- answer of the first `get_smallest_eigenvector` -/
  eig1 : EigAns α
  /-- `coords.position` after `take_uphill_step` -/
  stepped : List α
  /-- result of `subspace_minimisation` (looked at only if `λ < 0 ∧ nit < 5`) -/
  sub : List α
  /-- `potential.gradient` at the position handed to `test_convergence` -/
  gradConv : List α
  /-- answer of the second `get_smallest_eigenvector` (after convergence) -/
  eig2 : EigAns α
  /-- `ts_energy` and the probes `(energy, gradient)` of `find_pushoff`, by increment index -/
  ePush : α
  probeP : List (α × List α)
  probeM : List (α × List α)
  /-- results of the two `steepest_descent_paths` (`none` = the code saw `None`) -/
  descP : Option (List α × α)
  descM : Option (List α × α)
  /-- `potential.function(coords.position)` of the final line -/
  eTs : α

/-- the environment of a search -/
structure Env (α : Type) where
  lo : List α
  up : List α
  tol : α          -- ts_conv_crit
  sdTol : α        -- steepest_descent_conv_crit
  pushoff : α

inductive Outcome (α : Type) where
  /-- `(x_ts, e_ts, x₊, e₊, x₋, e₋, v)` and the value of `self.failure` afterwards -/
  | success (xTs : List α) (eTs : α) (xP : List α) (eP : α) (xM : List α) (eM : α)
      (v : List α) (flag : Option Reason)
  /-- seven `None`s and the value of `self.failure` -/
  | failure (reason : Option Reason)
  /-- a Python exception / the NaN direction: outside the skeleton -/
  | abort (what : String)
  deriving DecidableEq, Repr

def probeFn (l : List (α × List α)) (i : Nat) : α × List α := l.getD i (0, [])

/-- what `run` records for its post-condition: the position that was tested, the masks it
    was tested against, the gradient used by the test, and the push-off points -/
structure Witness (α : Type) where
  xTs : List α
  lower : List Bool
  upper : List Bool
  gradConv : List α
  push : Pushoff α

/-- the sub-procedures `run` calls, in order (compared with the call log of the real code) -/
inductive Call where
  | eig | step | sub | conv (b : Bool) | push | desc | energy
  deriving DecidableEq, Repr

structure RunRes (α : Type) where
  out : Outcome α
  wit : Option (Witness α)
  calls : List Call

/-- `if eigenvalue < 0.0 and eig_steps < 5:` — is the subspace minimisation run in this pass? -/
def IterOra.doSub (cfg : Cfg) (o : IterOra α) : Bool :=
  match o.eig1 with
  | .ok _ ev nit => decide (ev < 0) && decide (nit < cfg.subspaceMaxEigSteps)
  | _ => false

/-- `coords.position` when `test_convergence` is called in this pass: after `take_uphill_step`,
    and after the subspace minimisation when that is run -/
def IterOra.tested (cfg : Cfg) (o : IterOra α) : List α :=
  if o.doSub cfg then o.sub else o.stepped

/-- the tail of one loop pass once the convergence test has succeeded at `x` -/
def finish (cfg : Cfg) (env : Env α) (x : List α) (o : IterOra α) (fl : Option Reason)
    (tr : List Call) : RunRes α :=
  match o.eig2 with
  | .refused r => ⟨.failure (some r), none, tr ++ [.eig]⟩
  | .nanDirection _ => ⟨.abort "nan-direction", none, tr ++ [.eig]⟩
  | .ok v _ _ =>
    -- steepest_descent: find_pushoff never answers None; it may set failure := 'pushoff'
    let p := findPushoff cfg env.sdTol env.pushoff o.ePush x v env.lo env.up
                (probeFn o.probeP) (probeFn o.probeM)
    let fl := if p.failed then some Reason.pushoff else fl
    match o.descP, o.descM with
    | some (xP, eP), some (xM, eM) =>
      ⟨.success x o.eTs xP eP xM eM v fl,
       some ⟨x, activeLower x env.lo, activeUpper x env.up, o.gradConv, p⟩,
       tr ++ [.eig, .push, .desc, .desc, .energy]⟩
    | _, _ =>
      -- `if self.failure != 'pushoff': self.failure = 'SDpaths'`
      ⟨.failure (if fl ≠ some Reason.pushoff then some Reason.sdPaths else fl), none,
       tr ++ [.eig, .push, .desc, .desc]⟩

/-- `run`: `n` = remaining `ts_steps`, `x` = `coords.position`, `fl` = `self.failure`,
    `tr` = the calls made so far.
    `none` = the oracle list was too short (the driver answers `guard`). -/
def runLoop (cfg : Cfg) (env : Env α) :
    Nat → List α → Option Reason → List Call → List (IterOra α) → Option (RunRes α)
  | 0, _, _, tr, _ => some ⟨.failure (some .steps), none, tr⟩
  | _ + 1, _, _, _, [] => none
  | n + 1, _x, fl, tr, o :: os =>
    match o.eig1 with
    | .refused r => some ⟨.failure (some r), none, tr ++ [.eig]⟩
    | .nanDirection _ => some ⟨.abort "nan-direction", none, tr ++ [.eig]⟩
    | .ok _ _ _ =>
      let x1 := o.tested cfg
      let tr := tr ++ (if o.doSub cfg then [.eig, .step, .sub] else [.eig, .step])
      match testConvergence cfg.convAxis cfg.convCmp o.gradConv (activeLower x1 env.lo)
              (activeUpper x1 env.up) env.tol with
      | .error e => some ⟨.abort e, none, tr⟩
      | .ok false => runLoop cfg env n x1 fl (tr ++ [.conv false]) os
      | .ok true => some (finish cfg env x1 o fl (tr ++ [.conv true]))

/-- `run(coords)`: `self.failure = None`, then the loop -/
def run (cfg : Cfg) (env : Env α) (tsSteps : Nat) (x0 : List α) (os : List (IterOra α)) :
    Option (RunRes α) :=
  runLoop cfg env tsSteps x0 none [] os

/-! ### Rayleigh–Ritz ratio on a quadratic surface `½xᵀAx + bᵀx` -/

def matVec (A : List (List α)) (v : List α) : List α := A.map (fun row => dot row v)

/-- gradient of `½xᵀAx + bᵀx` for symmetric `A` -/
def quadGrad (A : List (List α)) (b x : List α) : List α := vadd (matVec A x) b

/-- `rayleigh_ritz_function_gradient` after the normalisation `vec /= norm(vec)` (`u` is the
    normalised vector), with the central differences of the *gradient* as coded:
    `f = Δg·u / (2δ)`, `grad = Δg/δ − 2 f u`, `Δg = ∇(x+δu) − ∇(x−δu)`. -/
def rayleighCoded (gradF : List α → List α) (disp : α) (x u : List α) : α × List α :=
  let dg := vsub (gradF (axpy x disp u)) (gradF (axpy x (-disp) u))
  let f := dot dg u / (((2 : Nat) : α) * disp)
  (f, vsub (vdiv dg disp) (vscale (((2 : Nat) : α) * f) u))

end numeric
end TopSearch.Hef
