/-
  TopSearch.Model.Align — the logic of `MolecularSimilarity` around its numerical solvers
  (src/topsearch/similarity/molecular_similarity.py).  Core Lean only.

  * `scan`: the candidate loop shared by `test_exact_same` and `optimal_alignment`:
    leave early with the first candidate below the criterion, otherwise keep the first
    strictly better one.  Candidates (what `align` produced: distance, aligned copy, permutation)
    are *inputs* (oracle answers of Kabsch/Hungarian), identified by a payload `γ`.
  * `optimalAlignment`: exact test, `restarts` random restarts, optionally the same for the inverted
    structure — mirrors the code path by path.
  * `assemble`: the group-by-group assembly of the permutation in `permutational_alignment`
    (Hungarian answers are oracle column indices per group).
-/
namespace TopSearch.Align

/-- one alignment attempt: reported distance and whatever came with it -/
structure Cand (α γ : Type) where
  dist : α
  data : γ
  deriving Repr, DecidableEq

variable {α γ : Type} [LT α] [DecidableLT α]

/-- the loop `for c in cands: if c.dist < crit: return c; if c.dist < best.dist: best = c`
    — `Sum.inl` = early return, `Sum.inr` = best so far after the whole list -/
def scan (crit : α) : Cand α γ → List (Cand α γ) → Sum (Cand α γ) (Cand α γ)
  | best, [] => .inr best
  | best, c :: cs =>
    if c.dist < crit then .inl c
    else if c.dist < best.dist then scan crit c cs
    else scan crit best cs

/-- `optimal_alignment`: `exact` is the answer of `test_exact_same`, `randoms` the answers of
    `align` for the random restarts, and (when inversion is allowed) the same for the inverted
    structure.  Returns the chosen candidate. -/
def optimalAlignment (crit : α) (exact : Cand α γ) (randoms : List (Cand α γ))
    (inversion : Option (Cand α γ × List (Cand α γ))) : Cand α γ :=
  if exact.dist < crit then exact
  else match scan crit exact randoms with
    | .inl c => c
    | .inr best =>
      match inversion with
      | none => best
      | some (exactInv, randomsInv) =>
        if exactInv.dist < crit then exactInv
        else
          let best' := if exactInv.dist < best.dist then exactInv else best
          match scan crit best' randomsInv with
          | .inl c => c
          | .inr b => b

/-- `test_exact_same`: the same loop over the alignments of all (furthest, perpendicular) atom
    pairs, starting from the sentinel `(1e30, coords2, zeros)` -/
def testExactSame (crit : α) (sentinel : Cand α γ) (cands : List (Cand α γ)) : Cand α γ :=
  match scan crit sentinel cands with
  | .inl c => c
  | .inr b => b

/-! ### permutation assembly -/

/-- write `perm[g[idx]] := g[col[idx]]` for one permutable group `g` with Hungarian answer `col`
    (groups of one atom map the atom to itself, `col` is not consulted) -/
def assembleGroup (perm : Nat → Nat) (g col : List Nat) : Nat → Nat :=
  match g with
  | [a] => fun x => if x = a then a else perm x
  | _ =>
    (g.zip col).foldl (fun p (ac : Nat × Nat) =>
      fun x => if x = ac.1 then g.getD ac.2 0 else p x) perm

/-- all groups in turn, starting from the all-zero vector of the code -/
def assemble (groups cols : List (List Nat)) : Nat → Nat :=
  (groups.zip cols).foldl (fun p gc => assembleGroup p gc.1 gc.2) (fun _ => 0)

/-- the permuted coordinates of the code: `permuted[a] = coords2[perm[a]]` for atoms of groups
    with more than one member, `coords2[a]` otherwise (the array starts as a copy of coords2) -/
def permuted {β : Type} (coords2 : Nat → β) (perm : Nat → Nat) : Nat → β := fun a => coords2 (perm a)

end TopSearch.Align

/-! ### permutation assembly when the two structures distribute their atoms differently

  `get_permutable_groups` returns TWO families of groups: `perm_atoms1` (atoms of the first
  structure with a given species/environment) and `perm_atoms2` (the same for the second).  For
  structures inside the alignment's domain they coincide (the model above); in general they need
  not.  The code then writes, for each group `(g1, g2)` with Hungarian answer `col`,

      permutation[g1[idx]]     := g1[col[idx]]
      permuted_coords[g1[idx]] := source[g2[col[idx]]]

  where `source` is the UNTOUCHED second structure `coords2` — that is what makes the result
  independent of the order in which the groups are processed (an order that comes from iterating a
  Python `set` of strings).  `assembleCoords` models the coordinate part for an arbitrary read policy:
  `pristine = true` reads from the input, `pristine = false` reads from the working copy that is
  being overwritten (the variant a seeded defect introduced). -/
namespace TopSearch.Align

/-- one group: the atoms written (first structure), the atoms read (second structure), the
    Hungarian column answer -/
structure Grp where
  g1 : List Nat
  g2 : List Nat
  col : List Nat
  deriving Repr, DecidableEq

variable {β : Type}

/-- process one group on the working copy `w` (which starts as a copy of `coords2`) -/
def assembleCoordsGroup (pristine : Bool) (coords2 : Nat → β) (w : Nat → β) (g : Grp) : Nat → β :=
  if g.g1.length ≤ 1 then w          -- single-atom groups are not touched (`else` branch of the code)
  else
    let src := if pristine then coords2 else w
    (g.g1.zip g.col).foldl (fun acc (ac : Nat × Nat) =>
      fun x => if x = ac.1 then src (g.g2.getD ac.2 0) else acc x) w

/-- all groups in the given order -/
def assembleCoords (pristine : Bool) (coords2 : Nat → β) (gs : List Grp) : Nat → β :=
  gs.foldl (assembleCoordsGroup pristine coords2) coords2

end TopSearch.Align

/-! ### the same candidate loop with the tie-breaking left open

  The property (C11) fixes which *distance* is reported, not which of several equally distant
  candidates is returned.  `scanG` / `optimalAlignmentG` are the loop and the function above with the
  improvement test `dist < best_dist` as a parameter `imp` (`imp c best = true` means "replace");
  `improve strict` is the test the source spells — `<` when `strict`, `<=` otherwise — and which of
  the two it is is read from the source on every run (`Gen.Align.cfg.improveStrictLess`). -/
namespace TopSearch.Align

variable {α γ : Type}

def scanG [LT α] [DecidableLT α] (imp : α → α → Bool) (crit : α) :
    Cand α γ → List (Cand α γ) → Sum (Cand α γ) (Cand α γ)
  | best, [] => .inr best
  | best, c :: cs =>
    if c.dist < crit then .inl c
    else if imp c.dist best.dist then scanG imp crit c cs
    else scanG imp crit best cs

def optimalAlignmentG [LT α] [DecidableLT α] (imp : α → α → Bool) (crit : α) (exact : Cand α γ)
    (randoms : List (Cand α γ)) (inversion : Option (Cand α γ × List (Cand α γ))) : Cand α γ :=
  if exact.dist < crit then exact
  else match scanG imp crit exact randoms with
    | .inl c => c
    | .inr best =>
      match inversion with
      | none => best
      | some (exactInv, randomsInv) =>
        if exactInv.dist < crit then exactInv
        else
          let best' := if imp exactInv.dist best.dist then exactInv else best
          match scanG imp crit best' randomsInv with
          | .inl c => c
          | .inr b => b

/-- `test_exact_same` with the tie-breaking left open -/
def testExactSameG [LT α] [DecidableLT α] (imp : α → α → Bool) (crit : α) (sentinel : Cand α γ)
    (cands : List (Cand α γ)) : Cand α γ :=
  match scanG imp crit sentinel cands with
  | .inl c => c
  | .inr b => b

/-- the improvement test as the source spells it -/
def improve [LT α] [LE α] [DecidableLT α] [DecidableLE α] (strict : Bool) (a b : α) : Bool :=
  if strict then decide (a < b) else decide (a ≤ b)

end TopSearch.Align
