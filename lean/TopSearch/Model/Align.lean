/-
  TopSearch.Model.Align — the logic of `MolecularSimilarity` around its numerical solvers
  (src/topsearch/similarity/molecular_similarity.py).  Core Lean only.

  * `scan`: the candidate loop shared by `test_exact_same` and `optimal_alignment`:
    leave early with the first candidate below the criterion, otherwise keep the first
    strictly better one.  Candidates (what `align` produced: distance, aligned copy, permutation)
    are *inputs* (oracle answers of Kabsch/Hungarian), identified by a payload `γ`.
  * `optimalAlignment`: exact test, `restarts` random restarts, optionally the same for the inverted
    structure — mirrors the code path by path.
  * `assemble`: the group-by-group assembly of the permutation in `permutational_alignment`
    (Hungarian answers are oracle column indices per group).
-/
namespace TopSearch.Align

/-- one alignment attempt: reported distance and whatever came with it -/
structure Cand (α γ : Type) where
  dist : α
  data : γ
  deriving Repr, DecidableEq

variable {α γ : Type} [LT α] [DecidableLT α]

/-- the loop `for c in cands: if c.dist < crit: return c; if c.dist < best.dist: best = c`
    — `Sum.inl` = early return, `Sum.inr` = best so far after the whole list -/
def scan (crit : α) : Cand α γ → List (Cand α γ) → Sum (Cand α γ) (Cand α γ)
  | best, [] => .inr best
  | best, c :: cs =>
    if c.dist < crit then .inl c
    else if c.dist < best.dist then scan crit c cs
    else scan crit best cs

/-- `optimal_alignment`: `exact` is the answer of `test_exact_same`, `randoms` the answers of
    `align` for the random restarts, and (when inversion is allowed) the same for the inverted
    structure.  Returns the chosen candidate. -/
def optimalAlignment (crit : α) (exact : Cand α γ) (randoms : List (Cand α γ))
    (inversion : Option (Cand α γ × List (Cand α γ))) : Cand α γ :=
  if exact.dist < crit then exact
  else match scan crit exact randoms with
    | .inl c => c
    | .inr best =>
      match inversion with
      | none => best
      | some (exactInv, randomsInv) =>
        if exactInv.dist < crit then exactInv
        else
          let best' := if exactInv.dist < best.dist then exactInv else best
          match scan crit best' randomsInv with
          | .inl c => c
          | .inr b => b

/-- `test_exact_same`: the same loop over the alignments of all (furthest, perpendicular) atom
    pairs, starting from the sentinel `(1e30, coords2, zeros)` -/
def testExactSame (crit : α) (sentinel : Cand α γ) (cands : List (Cand α γ)) : Cand α γ :=
  match scan crit sentinel cands with
  | .inl c => c
  | .inr b => b

/-! ### permutation assembly -/

/-- write `perm[g[idx]] := g[col[idx]]` for one permutable group `g` with Hungarian answer `col`
    (groups of one atom map the atom to itself, `col` is not consulted) -/
def assembleGroup (perm : Nat → Nat) (g col : List Nat) : Nat → Nat :=
  match g with
  | [a] => fun x => if x = a then a else perm x
  | _ =>
    (g.zip col).foldl (fun p (ac : Nat × Nat) =>
      fun x => if x = ac.1 then g.getD ac.2 0 else p x) perm

/-- all groups in turn, starting from the all-zero vector of the code -/
def assemble (groups cols : List (List Nat)) : Nat → Nat :=
  (groups.zip cols).foldl (fun p gc => assembleGroup p gc.1 gc.2) (fun _ => 0)

/-- the permuted coordinates of the code: `permuted[a] = coords2[perm[a]]` for atoms of groups
    with more than one member, `coords2[a]` otherwise (the array starts as a copy of coords2) -/
def permuted {β : Type} (coords2 : Nat → β) (perm : Nat → Nat) : Nat → β := fun a => coords2 (perm a)

end TopSearch.Align
