/-
  TopSearch.Model.Merge — the similarity gate and everything that merges stationary points
  into a `Ktn` (C03, C05; reused by C01, C08, C13).  Core Lean only.

  Anchors:
    src/topsearch/similarity/similarity.py        test_same, is_new_minimum, is_new_ts,
                                                  test_new_minimum, test_new_ts
    src/topsearch/data/kinetic_transition_network.py   add_network
    src/topsearch/sampling/exploration.py         run_connection_attempts, connection_attempt,
                                                  check_pair, reconverge_minima, reconverge_landscape

  Part 1 is the numeric match relation of `StandardSimilarity.test_same`, written once,
  generically over a numeric type (executed at `Rat` by Drivers/Merge.lean, proved over ordered
  fields in Props/C03.lean).  Part 2 onwards is generic in an ARBITRARY match relation
  `same : δ → δ → Bool` (first argument = the candidate, second = the stored point — the
  direction in which the code calls `test_same`), so that the atomic / molecular relation can
  be supplied as an oracle.
-/
import TopSearch.Model.Ktn

namespace TopSearch.Merge
open TopSearch TopSearch.Ktn

/-! ### 1. `StandardSimilarity.test_same` -/

/-- payload of a stationary point: coordinates and energy -/
structure Pt (α : Type) where
  coords : List α
  energy : α
  deriving Repr, DecidableEq

section numeric
variable {α : Type} [Add α] [Sub α] [Mul α] [Div α] [Neg α] [NatCast α]
  [LT α] [LE α] [DecidableLT α] [DecidableLE α]

/-- `Σ (xᵢ - yᵢ)²`, the square of `np.linalg.norm(coords1 - coords2)` -/
def sumSq : List α → List α → α
  | x :: xs, y :: ys => (x - y) * (x - y) + sumSq xs ys
  | _, _ => ((0 : Nat) : α)

/-- one term of the ellipsoid sum: `((x - y) / ((hi - lo) * criterion)) ** 2` -/
def propTerm (dc lo hi x y : α) : α :=
  ((x - y) / ((hi - lo) * dc)) * ((x - y) / ((hi - lo) * dc))

/-- `np.sum(np.divide(np.subtract(position, coords2), (upper - lower) * criterion) ** 2)` -/
def propSum (dc : α) : List α → List α → List α → List α → α
  | lo :: los, hi :: his, x :: xs, y :: ys => propTerm dc lo hi x y + propSum dc los his xs ys
  | _, _, _, _ => ((0 : Nat) : α)

/-- `np.abs(x) < c`, written without `abs`: `x < c ∧ -x < c` -/
def absLt (x c : α) : Bool := decide (x < c) && decide (-x < c)

/-- `np.abs(energy1 - energy2) < energy_criterion` -/
def sameEnergy (ec e1 e2 : α) : Bool := absLt (e1 - e2) ec

/-- the decision of the absolute mode as the code writes it, the root being a parameter:
    `distance < distance_criterion and energy_difference < energy_criterion` -/
def testSameSqrt (sqrt : α → α) (dc ec : α) (p q : Pt α) : Bool :=
  decide (sqrt (sumSq p.coords q.coords) < dc) && sameEnergy ec p.energy q.energy

/-- the same decision on squared distances (what is executed and what the theorems use):
    for a root with `0 ≤ r ∧ r*r = s`, `r < c ↔ 0 ≤ c ∧ s < c*c` (`C03_sqrt_contract`). -/
def testSameAbs (dc ec : α) (p q : Pt α) : Bool :=
  (decide (((0 : Nat) : α) ≤ dc) && decide (sumSq p.coords q.coords < dc * dc)) &&
    sameEnergy ec p.energy q.energy

/-- the box-proportional mode: `sum_distances <= 1.0 and energy_difference < energy_criterion` -/
def testSameProp (dc ec : α) (los his : List α) (p q : Pt α) : Bool :=
  decide (propSum dc los his p.coords q.coords ≤ ((1 : Nat) : α)) && sameEnergy ec p.energy q.energy

/-- the two configurations of `StandardSimilarity` -/
inductive Mode (α : Type) where
  | abs (dc ec : α)
  | prop (dc ec : α) (los his : List α)
  deriving Repr

def testSame : Mode α → Pt α → Pt α → Bool
  | .abs dc ec => testSameAbs dc ec
  | .prop dc ec los his => testSameProp dc ec los his

end numeric

/-! ### 2. the gate, generic in the match relation -/

variable {δ : Type}

/-- what a successful single-ended search returns: the transition state and the two minima its
    steepest-descent paths reach -/
structure Rec (δ : Type) where
  ts : δ
  plus : δ
  minus : δ
  deriving Repr, DecidableEq

/-- `is_new_minimum`: `for i in range(n_minima): if test_same(cand, stored i): return False, i`;
    `some i` = the first stored minimum the candidate matches, `none` = new. -/
def isNewMinimum (same : δ → δ → Bool) (s : Ktn δ) (d : δ) : Option Nat :=
  (List.range s.nMin).find? (fun i =>
    match s.nodeData? i with
    | some x => same d x
    | none => false)

/-- `is_new_ts(...)[0]`: no stored transition state matches the candidate.  (The edge the code
    reports goes only to the log file, so the iteration order of `G.edges()` does not matter.) -/
def isNewTs (same : δ → δ → Bool) (s : Ktn δ) (d : δ) : Bool :=
  !(s.edges.any (fun e => same d e.data))

/-- `test_new_minimum` -/
def testNewMinimum (same : δ → δ → Bool) (s : Ktn δ) (d : δ) : Ktn δ :=
  match isNewMinimum same s d with
  | some _ => s
  | none => s.addMin d

/-- `index = is_new_minimum(...)[1]; if index is None: add_minimum(...); index = n_minima-1` -/
def lookupOrInsert (same : δ → δ → Bool) (s : Ktn δ) (d : δ) : Ktn δ × Nat :=
  match isNewMinimum same s d with
  | some i => (s, i)
  | none => (s.addMin d, (s.addMin d).nMin - 1)

/-- `test_new_ts` as the code stands: repeat check first; look up *plus*, insert it if new;
    THEN look up *minus* (against the network that already holds *plus*), insert it if new;
    `add_ts` with the store's counter rule `c`. -/
def testNewTs (same : δ → δ → Bool) (c : Bool) (s : Ktn δ) (r : Rec δ) : Ktn δ :=
  if isNewTs same s r.ts then
    let a := lookupOrInsert same s r.plus
    let b := lookupOrInsert same a.1 r.minus
    b.1.addTs c r.ts a.2 b.2
  else s

/-! #### the statement order of `test_new_ts`, as a little program (target of the translator) -/

inductive Side where
  | plus | minus
  deriving DecidableEq, Repr

/-- the statements of `test_new_ts` that touch the network, in source order -/
inductive Step where
  /-- `if not self.is_new_ts(ktn, ts, e)[0]: return` -/
  | repeatCheck
  /-- `index_x = self.is_new_minimum(ktn, min_x, e_x)[1]` -/
  | lookup (x : Side)
  /-- `if index_x is None: ktn.add_minimum(min_x.position, e_x); index_x = ktn.n_minima-1` -/
  | insertIfNone (x : Side)
  /-- `ktn.add_ts(ts.position, e_ts, index_a, index_b)` -/
  | addTs (a b : Side)
  /-- anything else that touches the network (never produced for the current source) -/
  | other
  deriving DecidableEq, Repr

structure TsRun (δ : Type) where
  s : Ktn δ
  ip : Option Nat := none
  im : Option Nat := none
  returned : Bool := false

def Rec.side (r : Rec δ) : Side → δ
  | .plus => r.plus
  | .minus => r.minus

def TsRun.idx (t : TsRun δ) : Side → Option Nat
  | .plus => t.ip
  | .minus => t.im

def TsRun.setIdx (t : TsRun δ) (x : Side) (i : Option Nat) : TsRun δ :=
  match x with
  | .plus => { t with ip := i }
  | .minus => { t with im := i }

def runStep (same : δ → δ → Bool) (c : Bool) (r : Rec δ) (t : TsRun δ) : Step → TsRun δ
  | .repeatCheck => if isNewTs same t.s r.ts then t else { t with returned := true }
  | .lookup x => t.setIdx x (isNewMinimum same t.s (r.side x))
  | .insertIfNone x =>
      match t.idx x with
      | some _ => t
      | none => ({ t with s := t.s.addMin (r.side x) }).setIdx x (some ((t.s.addMin (r.side x)).nMin - 1))
  | .addTs a b =>
      match t.idx a, t.idx b with
      | some i, some j => { t with s := t.s.addTs c r.ts i j }
      | _, _ => t
  | .other => t

/-- run a statement list; statements after a `return` are not executed -/
def runSteps (same : δ → δ → Bool) (c : Bool) (steps : List Step) (s : Ktn δ) (r : Rec δ) : Ktn δ :=
  (steps.foldl (fun t st => if t.returned then t else runStep same c r t st) ({ s := s } : TsRun δ)).s

/-- the order in the current source -/
def stepsNow : List Step :=
  [.repeatCheck, .lookup .plus, .insertIfNone .plus, .lookup .minus, .insertIfNone .minus,
   .addTs .plus .minus]

/-- the order before the repair (both look-ups first): a record whose two sides reach the same
    new minimum stores that minimum twice -/
def stepsBeforeFix : List Step :=
  [.repeatCheck, .lookup .plus, .lookup .minus, .insertIfNone .plus, .insertIfNone .minus,
   .addTs .plus .minus]

/-! ### 3. `add_network` -/

/-- the minima loop of `add_network`: gate every minimum of the other network, remember where
    it ended up (`index_map`) -/
def minimaLoop (same : δ → δ → Bool) (s : Ktn δ) (mins : List δ) : Ktn δ × List (Option Nat) :=
  mins.foldl (fun acc d =>
    let s' := testNewMinimum same acc.1 d
    (s', acc.2 ++ [isNewMinimum same s' d])) (s, [])

def sortPair (p : Nat × Nat) : Nat × Nat := (min p.1 p.2, max p.1 p.2)

/-- the history loop of `add_network` (entries mapped through `index_map`, unmapped ones
    dropped, mapped ones sorted).  The history is C13's subject; it is carried here only so that
    the merged network is complete. -/
def mergeHistory (own : List (Nat × Nat)) (imap : List (Option Nat)) (other : List (Nat × Nat)) :
    List (Nat × Nat) :=
  other.foldl (fun acc p =>
    match imap.getD p.1 none, imap.getD p.2 none with
    | some a, some b => acc ++ [sortPair (a, b)]
    | _, _ => acc) own

/-- `add_network` on the other network's minima (in index order) and its transition-state
    records in the order `other.G.edges()` enumerates them (an input: networkx fixes it by node
    and adjacency insertion order, the theorems hold for every order and orientation). -/
def addNetworkRecs (same : δ → δ → Bool) (c : Bool) (s : Ktn δ) (mins : List δ)
    (recs : List (Rec δ)) (otherHist : List (Nat × Nat)) : Ktn δ :=
  let a := minimaLoop same s mins
  let s2 := recs.foldl (testNewTs same c) a.1
  { s2 with pairlist := mergeHistory s2.pairlist a.2 otherHist }

def minimaOf (other : Ktn δ) : Option (List δ) := (List.range other.nMin).mapM other.nodeData?

def recordsOf (other : Ktn δ) (order : List (Nat × Nat)) : Option (List (Rec δ)) :=
  order.mapM (fun p =>
    match other.edgeData? p.1 p.2, other.nodeData? p.1, other.nodeData? p.2 with
    | some t, some a, some b => some ⟨t, a, b⟩
    | _, _, _ => none)

/-- `add_network(other)`; `none` when `order` names a missing edge / minimum (the code raises) -/
def addNetwork (same : δ → δ → Bool) (c : Bool) (s other : Ktn δ) (order : List (Nat × Nat)) :
    Option (Ktn δ) :=
  match minimaOf other, recordsOf other order with
  | some mins, some recs => some (addNetworkRecs same c s mins recs other.pairlist)
  | _, _ => none

/-! ### 4. a round of connection attempts -/

/-- result of one single-ended search: `none` = failed (`ts_coords is None`) -/
abbrev Outcome (δ : Type) := Option (Rec δ)

/-- `connection_attempt` keeps the successful searches, in order
    (`if ts_coords is not None: append`) -/
def successes (outs : List (Outcome δ)) : List (Rec δ) := outs.filterMap id

/-- merging what one connection attempt returned -/
def mergeRecs (same : δ → δ → Bool) (c : Bool) (s : Ktn δ) (recs : List (Rec δ)) : Ktn δ :=
  recs.foldl (testNewTs same c) s

def mergeOutcome (same : δ → δ → Bool) (c : Bool) (s : Ktn δ) : Outcome δ → Ktn δ
  | none => s
  | some r => testNewTs same c s r

/-- the merging part of a round: per pair, per search, in list order -/
def mergeRound (same : δ → δ → Bool) (c : Bool) (s : Ktn δ) (outs : List (List (Outcome δ))) : Ktn δ :=
  outs.foldl (fun s os => mergeRecs same c s (successes os)) s

/-- `pairlist = append(pairlist, sort(pair))` for every pair of the round, searched or not -/
def recordPairs (s : Ktn δ) (pairs : List (Nat × Nat)) : Ktn δ :=
  { s with pairlist := s.pairlist ++ pairs.map sortPair }

/-- `check_pair` (C13's kernel; here only so that the driver can run a whole round):
    refused when tried more than twice, already connected, or a self-pair -/
def checkPair (s : Ktn δ) (p : Nat × Nat) : Bool :=
  let repeats := (s.pairlist.filter (fun q => q == sortPair p)).length
  if repeats > 2 then false
  else if s.hasEdge p.1 p.2 then false
  else if p.1 == p.2 then false
  else true

/-- a task = the pair and what its searches would return if the pair is attempted -/
abbrev Task (δ : Type) := (Nat × Nat) × List (Outcome δ)

/-- serial branch: each pair is checked against, and merged into, the evolving network -/
def roundSerial (allowed : Ktn δ → Nat × Nat → Bool) (same : δ → δ → Bool) (c : Bool)
    (s : Ktn δ) (tasks : List (Task δ)) : Ktn δ :=
  recordPairs
    (tasks.foldl (fun s t => if allowed s t.1 then mergeRecs same c s (successes t.2) else s) s)
    (tasks.map (·.1))

/-- multiprocessing branch: `pool.map(connection_attempt, pairs)` runs every attempt against
    the network as it was when the pool was forked; the results are merged in list order -/
def roundParallel (allowed : Ktn δ → Nat × Nat → Bool) (same : δ → δ → Bool) (c : Bool)
    (s : Ktn δ) (tasks : List (Task δ)) : Ktn δ :=
  let results := tasks.map (fun t => if allowed s t.1 then successes t.2 else [])
  recordPairs (results.foldl (mergeRecs same c) s) (tasks.map (·.1))

/-! ### 5. reconvergence -/

/-- `reconverge_minima`: empty the network, gate the re-minimised minima in index order -/
def reconvergeMinima (same : δ → δ → Bool) (s : Ktn δ) (mins : List δ) : Ktn δ :=
  mins.foldl (testNewMinimum same) s.reset

/-- the transition-state loop of `reconverge_landscape`.  `skipFailed` is read from the source
    (`if i[0] is None: continue`); without it a failed re-search makes `test_new_ts` raise
    `TypeError` and the remaining results are lost (`none`). -/
def tsLoop (skipFailed : Bool) (same : δ → δ → Bool) (c : Bool) : Ktn δ → List (Outcome δ) → Option (Ktn δ)
  | s, [] => some s
  | s, none :: rest => if skipFailed then tsLoop skipFailed same c s rest else none
  | s, some r :: rest => tsLoop skipFailed same c (testNewTs same c s r) rest

/-- `reconverge_landscape`: reset, gate the re-minimised minima, then the re-searched transition
    states (in the order `G.edges()` gave before the reset — an input) -/
def reconvergeLandscape (skipFailed : Bool) (same : δ → δ → Bool) (c : Bool) (s : Ktn δ)
    (mins : List δ) (outs : List (Outcome δ)) : Option (Ktn δ) :=
  tsLoop skipFailed same c (mins.foldl (testNewMinimum same) s.reset) outs

/-! ### 6. streams of offers -/

inductive Offer (δ : Type) where
  /-- `test_new_minimum` (basin-hopping, reconvergence) -/
  | minimum (d : δ)
  /-- `test_new_ts` with a successful search record -/
  | ts (r : Rec δ)
  /-- a failed search -/
  | failed
  /-- `add_network` -/
  | merge (mins : List δ) (recs : List (Rec δ)) (hist : List (Nat × Nat))
  /-- `reset_network` (start of a reconvergence) -/
  | reset
  deriving Repr

def offer (same : δ → δ → Bool) (c : Bool) (s : Ktn δ) : Offer δ → Ktn δ
  | .minimum d => testNewMinimum same s d
  | .ts r => testNewTs same c s r
  | .failed => s
  | .merge mins recs hist => addNetworkRecs same c s mins recs hist
  | .reset => s.reset

def run (same : δ → δ → Bool) (c : Bool) (s : Ktn δ) (offers : List (Offer δ)) : Ktn δ :=
  offers.foldl (offer same c) s

def Offer.isReset : Offer δ → Bool
  | .reset => true
  | _ => false

/-- the minima an offer presents directly to the gate -/
def Offer.minima : Offer δ → List δ
  | .minimum d => [d]
  | .merge mins _ _ => mins
  | _ => []

/-- configuration read from the source by the translator (harness/translate/similarity.py) -/
structure Cfg where
  /-- the statements of `test_new_ts`, in order -/
  testNewTsSteps : List Step
  /-- `reconverge_landscape` skips failed re-searches -/
  reconvergeSkipsFailed : Bool
  /-- `connection_attempt` appends a search result only when `ts_coords is not None` -/
  attemptKeepsOnlySuccessful : Bool
  deriving Repr, DecidableEq

end TopSearch.Merge
