/-
  TopSearch.Model.Surfaces — what the surface classes add around the coded formulas
  (the formulas themselves are *generated*, Gen/Surfaces.lean): the eigenvalue classifiers
  `check_valid_minimum` / `check_valid_ts` (potentials/potential.py) and the central-difference
  stencil of `Potential.gradient`.  Core Lean only.
-/
namespace TopSearch.Surfaces

inductive Cmp where
  | gt | lt | ge | le
  deriving DecidableEq, Repr

/-- one conjunct of a classifier: `eigs[start] op thr` (all = false) or
    `np.all(eigs[start:] op thr)` (all = true) -/
structure EigCond where
  start : Nat
  all : Bool
  op : Cmp
  thr : Rat
  deriving Repr

def Cmp.holds (c : Cmp) (x t : Rat) : Bool :=
  match c with
  | .gt => decide (t < x)
  | .lt => decide (x < t)
  | .ge => decide (t ≤ x)
  | .le => decide (x ≤ t)

/-- `eigs` is numpy's `eigvalsh` output (ascending).  `eigs[k]` on a too-short array raises in the
    real code: the guard `start < eigs.length` is part of the model (`none` = IndexError). -/
def EigCond.eval (c : EigCond) (eigs : List Rat) : Option Bool :=
  if c.all then some ((eigs.drop c.start).all (fun x => c.op.holds x c.thr))
  else match eigs[c.start]? with
    | some x => some (c.op.holds x c.thr)
    | none => none

/-- conjunction with Python's short-circuit `and` -/
def classify (conds : List EigCond) (eigs : List Rat) : Option Bool :=
  match conds with
  | [] => some true
  | c :: cs =>
    match c.eval eigs with
    | none => none
    | some false => some false
    | some true => classify cs eigs

/-- `check_valid_minimum` / `check_valid_ts`: a point at the bounds is always accepted,
    otherwise the branch for atomistic / standard surfaces decides. -/
def checkValid (atBounds atomistic : Bool) (condsAtom condsStd : List EigCond) (eigs : List Rat) :
    Option Bool :=
  if atBounds then some true
  else if atomistic then classify condsAtom eigs else classify condsStd eigs

/-- central difference `(f(x+h) − f(x−h)) / (2h)` -/
def centralDiff {α} [Add α] [Sub α] [Mul α] [Div α] [NatCast α] (f : α → α) (x h : α) : α :=
  (f (x + h) - f (x - h)) / (((2 : Nat) : α) * h)

end TopSearch.Surfaces
