/-
  TopSearch.Model.History — the attempt history (`KineticTransitionNetwork.pairlist`) as
  `NetworkSampling.run_connection_attempts / check_pair` (src/topsearch/sampling/exploration.py)
  and `remove_minimum / remove_minima / add_network / reset_network`
  (src/topsearch/data/kinetic_transition_network.py) maintain it.  Core Lean only.

  The store itself is `TopSearch.Ktn` (Model/Ktn.lean); this file adds
  * `checkPair`     — the counting loop and the decision kernel of `check_pair`,
  * `serialRound` / `parallelRound` / `round` — one call of `run_connection_attempts`
    (which pairs reach the double-ended search, how the network evolves, what is appended),
  * `mergeHistory` / `addNetwork` — the history part of `add_network` (entries mapped through the
    real `index_map`, here the input `φ`),
  * an identity-level abstract specification (`Abs`, `render`) against which Props/C13 proves
    the refinement.

  What the similarity gate does with the outcome of a search (`test_new_ts`) belongs to another
  model; here it is an *input*: for every pair the list of store operations (`addMin`/`addTs`
  only — a round never removes or relabels) that merging that pair's outcomes performs.
-/
import TopSearch.Model.Ktn

namespace TopSearch.History
open TopSearch TopSearch.Ktn

variable {δ : Type}

/-- `np.sort([a, b])` -/
def sortPair (p : Nat × Nat) : Nat × Nat := if p.1 ≤ p.2 then p else (p.2, p.1)

/-- the counting loop of `check_pair`:
    `for i in pairlist: if np.array_equal(i, np.sort([node1, node2])): repeats += 1` -/
def repeats (h : List (Nat × Nat)) (a b : Nat) : Nat :=
  (h.filter (fun p => p == sortPair (a, b))).length

/-- the decision of `check_pair` after the counting loop, in the code's order of tests:
    `repeats > 2` → refuse; `has_edge` → refuse; `node1 == node2` → refuse; else accept.
    (The translator regenerates this kernel from the source as `Gen.History.checkKernel`;
    Props/C13 proves the two equal.) -/
def checkKernel (repeats : Nat) (hasEdge : Bool) (node1 node2 : Nat) : Bool :=
  if repeats > 2 then false
  else if hasEdge then false
  else if node1 = node2 then false
  else true

abbrev Kernel := Nat → Bool → Nat → Nat → Bool

/-- `check_pair(node1, node2)`: returns `(allowed, repeats)` — the count is returned on every path. -/
def checkPair (kern : Kernel) (s : Ktn δ) (a b : Nat) : Bool × Nat :=
  let r := repeats s.pairlist a b
  (kern r (s.hasEdge a b) a b, r)

/-- what the translator reads about the history handling besides the kernel -/
structure Cfg where
  /-- `run_connection_attempts` appends `np.sort(i)` (not `i`) -/
  roundSorts : Bool
  /-- `add_network` maps the other network's entries through `index_map` -/
  mergeMaps : Bool
  /-- `add_network` skips entries with an unmatched end (`None in mapped`) -/
  mergeSkipsUnmatched : Bool
  /-- `add_network` appends `np.sort(mapped)` -/
  mergeSorts : Bool
  deriving Repr, DecidableEq

def Cfg.repaired : Cfg := ⟨true, true, true, true⟩

/-- `if pairlist.size == 0: pairlist = np.empty((0, 2), dtype=int)` — only the array's *shape*
    is re-initialised; on the list of entries it is the identity (kept to mirror the code). -/
def reinitIfEmpty (h : List (Nat × Nat)) : List (Nat × Nat) := if h.isEmpty then [] else h

/-- the tail of `run_connection_attempts`: every pair of `total_pairs`, sorted, in list order,
    whether or not a search was run for it -/
def recordRound (cfg : Cfg) (h : List (Nat × Nat)) (pairs : List (Nat × Nat)) : List (Nat × Nat) :=
  reinitIfEmpty h ++ pairs.map (fun p => if cfg.roundSorts then sortPair p else p)

/-- only growth operations may come out of merging search outcomes -/
def isGrow : Op δ → Bool
  | .addMin _ => true
  | .addTs _ _ _ => true
  | _ => false

def applyEffects (kc : Ktn.Cfg) (s : Ktn δ) (eff : List (Op δ)) : Ktn δ := eff.foldl (step kc) s

/-- a searched pair as the double-ended search sees it: the two nodes and the `repeats` argument -/
abbrev Call := Nat × Nat × Nat

/-- serial branch: `for i in total_pairs: info = connection_attempt(i); merge info` —
    `check_pair` sees the network as it evolves during the round, but the history only as it
    was before the round (it is appended after the loop). -/
def serialRound (kern : Kernel) (kc : Ktn.Cfg) (s : Ktn δ) :
    List ((Nat × Nat) × List (Op δ)) → Ktn δ × List Call
  | [] => (s, [])
  | (p, eff) :: rest =>
    let c := checkPair kern s p.1 p.2
    if c.1 then
      let r := serialRound kern kc (applyEffects kc s eff) rest
      (r.1, (p.1, p.2, c.2) :: r.2)
    else serialRound kern kc s rest

/-- parallel branch: `pool.map(connection_attempt, total_pairs)` runs every `check_pair`
    against the network as it was when the pool forked; the outcomes are merged afterwards in
    list order. -/
def parallelRound (kern : Kernel) (kc : Ktn.Cfg) (s : Ktn δ)
    (pairs : List ((Nat × Nat) × List (Op δ))) : Ktn δ × List Call :=
  let acc := pairs.filter (fun pe => (checkPair kern s pe.1.1 pe.1.2).1)
  (acc.foldl (fun t pe => applyEffects kc t pe.2) s,
   acc.map (fun pe => (pe.1.1, pe.1.2, (checkPair kern s pe.1.1 pe.1.2).2)))

/-- one call of `run_connection_attempts`: the new store and the calls that reached the
    double-ended search, in order -/
def round (kern : Kernel) (cfg : Cfg) (kc : Ktn.Cfg) (parallel : Bool) (s : Ktn δ)
    (pairs : List ((Nat × Nat) × List (Op δ))) : Ktn δ × List Call :=
  let r := if parallel then parallelRound kern kc s pairs else serialRound kern kc s pairs
  ({ r.1 with pairlist := recordRound cfg r.1.pairlist (pairs.map (·.1)) }, r.2)

/-- guard of a round: the pairs name existing minima -/
def pairsValid (s : Ktn δ) (pairs : List (Nat × Nat)) : Bool :=
  pairs.all (fun p => decide (p.1 < s.nMin) && decide (p.2 < s.nMin))

/-- `index_map[i]` -/
def look (φ : List (Option Nat)) (i : Nat) : Option Nat := (φ[i]?).join

/-- the history loop of `add_network`:
    `mapped = [index_map[i[0]], index_map[i[1]]]; if None in mapped: continue;
     pairlist = append(pairlist, [np.sort(mapped)])`.
    With `mergeMaps = false` it is the original `append(pairlist, [np.sort(i)])`. -/
def mergeEntry (cfg : Cfg) (φ : List (Option Nat)) (p : Nat × Nat) : Option (Nat × Nat) :=
  if cfg.mergeMaps then
    match look φ p.1, look φ p.2 with
    | some a, some b => some (if cfg.mergeSorts then sortPair (a, b) else (a, b))
    | a, b =>
      if cfg.mergeSkipsUnmatched then none
      else some (if cfg.mergeSorts then sortPair (a.getD 0, b.getD 0) else (a.getD 0, b.getD 0))
  else some (sortPair p)

def mergeHistory (cfg : Cfg) (φ : List (Option Nat)) (h other : List (Nat × Nat)) :
    List (Nat × Nat) :=
  h ++ other.filterMap (mergeEntry cfg φ)

/-- `add_network` as far as the history is concerned: the store grows by `eff` (what the
    similarity gate inserts), then the other network's entries are appended through `φ`. -/
def addNetwork (cfg : Cfg) (kc : Ktn.Cfg) (s : Ktn δ) (eff : List (Op δ))
    (other : List (Nat × Nat)) (φ : List (Option Nat)) : Ktn δ :=
  let t := applyEffects kc s eff
  { t with pairlist := mergeHistory cfg φ t.pairlist other }

/-! ### Identity-level specification

Minima have immutable identities (natural numbers handed out once).  The abstract state knows
which identity sits at which index now (`ids`) and keeps the history as pairs of identities.
`render` is what the stored history must look like: each entry translated to the current
indices of its two identities (sorted), entries naming an identity that is gone dropped. -/

/-- current index of identity `a` -/
def idx : List Nat → Nat → Option Nat
  | [], _ => none
  | x :: xs, a => if x = a then some 0 else (idx xs a).map (· + 1)

def renderEntry (ids : List Nat) (p : Nat × Nat) : Option (Nat × Nat) :=
  match idx ids p.1, idx ids p.2 with
  | some i, some j => some (sortPair (i, j))
  | _, _ => none

def render (ids : List Nat) (h : List (Nat × Nat)) : List (Nat × Nat) := h.filterMap (renderEntry ids)

structure Abs where
  ids : List Nat := []
  next : Nat := 0
  hist : List (Nat × Nat) := []
  deriving Repr

namespace Abs

/-- `g` new minima appear at the end, with fresh identities -/
def grow (a : Abs) (g : Nat) : Abs :=
  { a with ids := a.ids ++ (List.range g).map (· + a.next), next := a.next + g }

/-- identity at index `i` (0 for an invalid index; guarded by the operations' validity) -/
def idAt (a : Abs) (i : Nat) : Nat := a.ids.getD i 0

/-- a round records the identities of the two minima of every pair -/
def record (a : Abs) (pairs : List (Nat × Nat)) : Abs :=
  { a with hist := a.hist ++ pairs.map (fun p => (a.idAt p.1, a.idAt p.2)) }

/-- the minimum at index `k` disappears; nobody else changes identity, the history is untouched -/
def remove (a : Abs) (k : Nat) : Abs := { a with ids := a.ids.eraseIdx k }

/-- the loop of `remove_minima` at identity level -/
def removeLoop (a : Abs) (c : Nat) : List Nat → Abs
  | [] => a
  | k :: ks => removeLoop (a.remove (k - c)) (c + 1) ks

/-- the set of identities `gone` disappears (identity-level meaning of a bulk removal) -/
def removeIds (a : Abs) (gone : List Nat) : Abs :=
  { a with ids := a.ids.filter (fun x => !gone.contains x) }

/-- a merge records, for every entry of the other network whose two minima were matched or
    inserted (`φ`), the identities they now have here -/
def merge (a : Abs) (other : List (Nat × Nat)) (φ : List (Option Nat)) : Abs :=
  { a with hist := a.hist ++ other.filterMap (fun p =>
      match look φ p.1, look φ p.2 with
      | some i, some j => some (a.idAt i, a.idAt j)
      | _, _ => none) }

def reset (a : Abs) : Abs := { a with ids := [], hist := [] }

end Abs

/-- operations of the refinement -/
inductive HOp (δ : Type) where
  | round (parallel : Bool) (pairs : List ((Nat × Nat) × List (Op δ)))
  | removeMin (k : Nat)
  /-- also bounds pruning: `remove_minima(get_bounds_minima(...))` -/
  | removeMinima (ks : List Nat)
  | addNetwork (eff : List (Op δ)) (other : List (Nat × Nat)) (φ : List (Option Nat))
  | reset
  /-- `dump_network` then `read_network` into a reset network: the history and the numbering
      come back unchanged (C06_roundtrip) -/
  | dumpRead
  /-- any other growth of the network (basin-hopping, reconvergence): minima appended -/
  | grow (eff : List (Op δ))

def countAddMin : List (Op δ) → Nat
  | [] => 0
  | .addMin _ :: ops => countAddMin ops + 1
  | _ :: ops => countAddMin ops

def HOp.valid (s : Ktn δ) : HOp δ → Bool
  | .round _ pairs =>
    pairsValid s (pairs.map (·.1)) && pairs.all (fun pe => pe.2.all isGrow)
  | .removeMin k => decide (k < s.nMin)
  | .removeMinima ks => ks.all (fun k => decide (k < s.nMin)) && decide ks.Nodup
  | .addNetwork eff other φ =>
    eff.all isGrow &&
    φ.all (fun o => match o with | some j => decide (j < s.nMin + countAddMin eff) | none => true) &&
    other.all (fun p => decide (p.1 < φ.length) && decide (p.2 < φ.length))
  | .reset => true
  | .dumpRead => true
  | .grow eff => eff.all isGrow

def hstep (kern : Kernel) (cfg : Cfg) (kc : Ktn.Cfg) (s : Ktn δ) : HOp δ → Ktn δ
  | .round par pairs => (round kern cfg kc par s pairs).1
  | .removeMin k => s.removeMin kc.removeRenumbersHistory k
  | .removeMinima ks => s.removeMinima kc.removeRenumbersHistory ks
  | .addNetwork eff other φ => addNetwork cfg kc s eff other φ
  | .reset => s.reset
  | .dumpRead => s
  | .grow eff => applyEffects kc s eff

/-- the abstract step; it looks at the concrete store only to learn how many minima a growth
    step appended -/
def astep (kern : Kernel) (cfg : Cfg) (kc : Ktn.Cfg) (s : Ktn δ) (a : Abs) : HOp δ → Abs
  | .round par pairs =>
    (a.grow ((round kern cfg kc par s pairs).1.nMin - s.nMin)).record (pairs.map (·.1))
  | .removeMin k => a.remove k
  | .removeMinima ks => a.removeLoop 0 (sortNat ks)
  | .addNetwork eff other φ => (a.grow (countAddMin eff)).merge other φ
  | .reset => a.reset
  | .dumpRead => a
  | .grow eff => a.grow (countAddMin eff)

/-- run concrete and abstract side by side, stopping at the first invalid operation -/
def runBoth (kern : Kernel) (cfg : Cfg) (kc : Ktn.Cfg) :
    Ktn δ → Abs → List (HOp δ) → Option (Ktn δ × Abs)
  | s, a, [] => some (s, a)
  | s, a, op :: ops =>
    if op.valid s then runBoth kern cfg kc (hstep kern cfg kc s op) (astep kern cfg kc s a op) ops
    else none

end TopSearch.History
