/-
  TopSearch.Model.Bonds — the bonding test of molecular systems,
  `MolecularCoordinates.same_bonds` (src/topsearch/data/coordinates.py): the current bond graph is
  compared with the reference bond graph through the LABEL PAIRS of their bonds.  It gates acceptance in
  molecular basin-hopping (C07) and archiving (C08), where the model of the loop takes its verdict as an
  input; this file says what that verdict is.  Core Lean only.

  Each bond contributes `sorted([label_u, label_v])`; the two lists of label pairs are compared after the
  number of bonds.  How they are compared is read from the source by the translator (`Compare`).
-/
namespace TopSearch.Bonds

/-- how the two lists of label pairs are compared -/
inductive Compare where
  | sortedLists     -- `sorted(current) == sorted(reference)`
  | uniqueRows      -- `np.array_equal(np.unique(current, axis=0), np.unique(reference, axis=0))`: repeats dropped
  deriving DecidableEq, Repr

variable {β : Type} [DecidableEq β]

/-- Python's `sorted` (stable merge sort under the element order `le`) -/
def pySorted (le : β → β → Bool) (l : List β) : List β := l.mergeSort le

/-- `np.unique(rows, axis=0)`: sorted, repeated rows dropped -/
def uniqueRows (le : β → β → Bool) (l : List β) : List β := (pySorted le l).eraseDups

/-- `same_bonds`: first the number of bonds, then the label pairs -/
def sameBonds (le : β → β → Bool) (c : Compare) (checksCount : Bool) (cur ref : List β) : Bool :=
  (!checksCount || cur.length == ref.length) &&
  (match c with
   | .sortedLists => pySorted le cur == pySorted le ref
   | .uniqueRows => uniqueRows le cur == uniqueRows le ref)

/-- the label pair of one bond as the code stores it: `sorted([a, b])` -/
def labelPair {α : Type} (le : α → α → Bool) (a b : α) : α × α := if le a b then (a, b) else (b, a)

end TopSearch.Bonds
