/-
  TopSearch.Model.LjN — the loops of `LennardJones.function`, `.gradient` and
  `.function_gradient` (potentials/atomic.py) for an arbitrary number of atoms `N`.

  The translator (harness/translate/surfaces.py) can only unroll the double loop for a fixed
  number of atoms (`ljF2`, `ljF3`, `ljF4`, …).  Here the *loop structure* is written once, by hand,
  around the regenerated two-atom body:

      for i in range(N-1):
          for j in range(i+1, N):
              v_ij, r6_term, dist = pair_potential(atom i, atom j)      -- ljF2 on the pair environment
              pot_energy_total += v_ij
              grad[i*3:(i*3)+3] += diff*g_factor                         -- ljGrad2[0..2]
              grad[j*3:(j*3)+3] -= diff*g_factor                         -- ljGrad2[3..5] = 0 - diff*g_factor

  The loop body is *not* re-modelled: it is the generated `ljF2` / `ljGrad2` (two-atom run of the
  same code, variables 0..2 = atom i, 3..5 = atom j, 6 = ε, 7 = σ) evaluated on `pairEnv`.
  `Props/C16General.lean` ties the hand-written loop to the unrolled `ljF3/ljGrad3/ljF4/ljGrad4`
  the translator produces from the real loop (`C16_ljN_matches_unrolled`).

  `position.size` is taken to be `3 * N`.  Core Lean only (no Mathlib): executable at `Rat`.
-/
import TopSearch.Py.Expr
import TopSearch.Gen.Surfaces

namespace TopSearch.LjN
open TopSearch.Py TopSearch.Gen.Surfaces

/-- the index pairs visited by `for i in range(N-1): for j in range(i+1, N)`, in loop order
    (`N - 1` is truncated subtraction: `range(-1)` is empty as well) -/
def pairs (N : Nat) : List (Nat × Nat) :=
  (List.range (N - 1)).flatMap fun i => (List.range' (i + 1) (N - (i + 1))).map fun j => (i, j)

section
variable {α : Type} [Add α] [Sub α] [Mul α] [Div α] [Neg α] [NatCast α] [IntCast α]

/-- evaluation with the named functions left uninterpreted (Lennard-Jones calls none) -/
def evalId (ρ : Nat → α) (e : E) : α := E.eval (fun _ y => y) ρ e

/-- the environment of the two-atom kernel for the pair `(i, j)`:
    `get_atom(position, i)`, `get_atom(position, j)`, `self.epsilon`, `self.sigma` -/
def pairEnv (x : Nat → α) (ε σ : α) (i j : Nat) : Nat → α := fun v =>
  if v < 3 then x (3 * i + v)
  else if v < 6 then x (3 * j + (v - 3))
  else if v = 6 then ε
  else if v = 7 then σ
  else ((0 : Nat) : α)

/-- `v_ij` -/
def pairEnergy (ε σ : α) (x : Nat → α) (p : Nat × Nat) : α :=
  evalId (pairEnv x ε σ p.1 p.2) ljF2

/-- component `c` (0..2: what is added to atom `i`; 3..5: what is added to atom `j`) of the
    generated two-atom gradient on the pair environment -/
def pairGrad (ε σ : α) (x : Nat → α) (p : Nat × Nat) (c : Nat) : α :=
  evalId (pairEnv x ε σ p.1 p.2) (ljGrad2.getD c (.c 0 1))

/-- `g[k] += d` (out-of-range `k` leaves the list alone; never happens for `k < 3N`) -/
def addAt : List α → Nat → α → List α
  | [], _, _ => []
  | a :: l, 0, d => (a + d) :: l
  | a :: l, k + 1, d => a :: addAt l k d

/-- `np.zeros(n)` -/
def zeros (n : Nat) : List α := List.replicate n ((0 : Nat) : α)

/-- `pot_energy_total += v_ij` -/
def energyStep (ε σ : α) (x : Nat → α) (acc : α) (p : Nat × Nat) : α :=
  acc + pairEnergy ε σ x p

/-- `grad[i*3:(i*3)+3] += diff*g_factor; grad[j*3:(j*3)+3] -= diff*g_factor` -/
def gradStep (ε σ : α) (x : Nat → α) (g : List α) (p : Nat × Nat) : List α :=
  let g := addAt g (3 * p.1) (pairGrad ε σ x p 0)
  let g := addAt g (3 * p.1 + 1) (pairGrad ε σ x p 1)
  let g := addAt g (3 * p.1 + 2) (pairGrad ε σ x p 2)
  let g := addAt g (3 * p.2) (pairGrad ε σ x p 3)
  let g := addAt g (3 * p.2 + 1) (pairGrad ε σ x p 4)
  addAt g (3 * p.2 + 2) (pairGrad ε σ x p 5)

/-- `LennardJones.function` on `N` atoms -/
def energyLoop (N : Nat) (ε σ : α) (x : Nat → α) : α :=
  (pairs N).foldl (energyStep ε σ x) ((0 : Nat) : α)

/-- `LennardJones.gradient` on `N` atoms -/
def gradLoop (N : Nat) (ε σ : α) (x : Nat → α) : List α :=
  (pairs N).foldl (gradStep ε σ x) (zeros (3 * N))

/-- `LennardJones.function_gradient` on `N` atoms: one pass updating both accumulators -/
def fgLoop (N : Nat) (ε σ : α) (x : Nat → α) : α × List α :=
  (pairs N).foldl (fun s p => (energyStep ε σ x s.1 p, gradStep ε σ x s.2 p))
    (((0 : Nat) : α), zeros (3 * N))

end

end TopSearch.LjN
