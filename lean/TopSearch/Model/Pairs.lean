/-
  TopSearch.Model.Pairs — pair selection as coded in
  src/topsearch/analysis/pair_selection.py (`closest_enumeration`, `connect_unconnected`,
  `connect_to_set`, `unique_pairs`), analysis/graph_properties.py (`unconnected_component`)
  and sampling/exploration.py (`NetworkSampling.select_minima`).  Core Lean only.

  External components enter as inputs (oracles), each with its contract stated where it is used:
  * `comp : Nat → Nat` — the connected component of every minimum as networkx reports it
    (`nx.node_connected_component(G, a)` = `{k | comp k = comp a}`; contract: equal ids ⇔ connected);
  * `sorted i : List Nat` — the answer of `np.argsort` on row `i` of the distance matrix
    (contract: a sorting permutation of the row; numpy's default sort is not stable);
    `argsort` below is the model's own (merge-sort) answer, which under generic positions is the
    only possible one (`Props/C12.lean: C12_argsort_unique`), so the driver may compute it itself;
  * distances: the matrix `d : Nat → Nat → α` (`get_distance_matrix` / `get_distance_from_minimum`
    fill it with `similarity.closest_distance`; the pair selectors only ever *compare* entries of
    one row, so any order-isomorphic image — e.g. squared distances — gives the same answer).

  ORDER: `unique_pairs` returns `[list(i) for i in set(final_pairs)]`; the order of that list is
  the iteration order of a Python `set` of int tuples, which the code does not fix.  The model's
  output list is therefore to be read as a SET: it is duplicate-free (`dedup`) and the driver prints
  it sorted; every theorem is about membership and `Nodup`, never about positions.
-/
namespace TopSearch.Pairs

abbrev Pair := Nat × Nat

inductive Scheme where
  | closest | unconnected | read
  deriving DecidableEq, Repr

/-- The kernels the translator regenerates from the source (slice bounds, the literal pair that
    `unique_pairs` drops, whether tuples are sorted, which set `connect_to_set` filters on). -/
structure Kernels where
  /-- `np.argsort(dist_matrix[i, :]).tolist()[1:neighbours+1]` -/
  closestSlice : Nat → List Nat → List Nat
  /-- `np.argsort(dist_vector).tolist()[1:]` -/
  nearestSlice : List Nat → List Nat
  /-- `pairs[:cycles]` -/
  cyclesSlice : Nat → List Nat → List Nat
  /-- `i != [0, 0]` -/
  keepPair : Pair → Bool
  /-- `tuple(sorted(i))` (false: the pair is kept as given) -/
  sortTuple : Bool
  /-- `[i for i in nearest if i in f_set]` (false: the test is on `s_set`) -/
  filterInF : Bool

/-- Python `l[lo:hi]` for non-negative bounds -/
def pySlice {β} (lo hi : Nat) (l : List β) : List β := (l.take hi).drop lo

/-- the code as it stands (hand-written; `Gen/Pairs.lean` must agree, see the bridge lemmas) -/
def ref : Kernels where
  closestSlice := fun N l => (l.drop 1).take N
  nearestSlice := fun l => l.drop 1
  cyclesSlice := fun c l => l.take c
  keepPair := fun p => p != (0, 0)
  sortTuple := true
  filterInF := true

def sortPair (p : Pair) : Pair := (min p.1 p.2, max p.1 p.2)

/-- duplicate-free list with the same members (what passing through `set(...)` does, up to order) -/
def dedup : List Pair → List Pair
  | [] => []
  | p :: t => if t.contains p then dedup t else p :: dedup t

/-- `unique_pairs`: drop the literal pair `[0, 0]`, sort each pair, pass through a `set`. -/
def uniquePairs (K : Kernels) (l : List Pair) : List Pair :=
  let kept := l.filter K.keepPair
  dedup (if K.sortTuple then kept.map sortPair else kept)

/-- `closest_enumeration`: for every minimum the slice `[1:neighbours+1]` of its argsorted row. -/
def closestEnumeration (K : Kernels) (n N : Nat) (sorted : Nat → List Nat) : List Pair :=
  uniquePairs K ((List.range n).flatMap fun i => (K.closestSlice N (sorted i)).map fun j => (i, j))

/-- `connect_to_set(ktn, …, node1, cycles)`; `sorted` is the argsort of node1's distance vector. -/
def connectToSet (K : Kernels) (n : Nat) (comp : Nat → Nat) (sorted : List Nat)
    (node cycles : Nat) : List Pair :=
  let inS : Nat → Bool := fun k => comp k == comp node
  let fSet := (List.range n).filter fun k => !(inS k)
  if fSet.isEmpty then []
  else
    let nearest := K.nearestSlice sorted
    let pairs := nearest.filter fun i => if K.filterInF then fSet.contains i else inS i
    uniquePairs K ((K.cyclesSlice cycles pairs).map fun i => (node, i))

/-- `unconnected_component`: the minima not in the component of the global minimum. -/
def unconnectedComponent (n gmin : Nat) (comp : Nat → Nat) : List Nat :=
  (List.range n).filter fun k => comp k != comp gmin

/-- `connect_unconnected`.  The Python loop runs over a `set` of ints; the final result passes
    through `set` again, so the iteration order is immaterial (increasing order here). -/
def connectUnconnected (K : Kernels) (n gmin : Nat) (comp : Nat → Nat) (sorted : Nat → List Nat)
    (N : Nat) : List Pair :=
  if n == 0 then []
  else
    uniquePairs K ((unconnectedComponent n gmin comp).flatMap fun i =>
      connectToSet K n comp (sorted i) i N)

/-- `read_pairs`: the rows of `pairs.txt` through `unique_pairs`. -/
def readPairs (K : Kernels) (file : List Pair) : List Pair := uniquePairs K file

/-- the hand-written dispatch of `select_minima` (`none`: no branch assigns `pairs`, the
    `return pairs` raises `UnboundLocalError`). -/
def dispatchRef (option : String) : Option Scheme :=
  if option == "ClosestEnumeration" then some .closest
  else if option == "ConnectUnconnected" then some .unconnected
  else if option == "ReadPairs" then some .read
  else none

/-- `NetworkSampling.select_minima(coords, option, neighbours)` -/
def selectMinima (K : Kernels) (dispatch : String → Option Scheme) (option : String)
    (n gmin : Nat) (comp : Nat → Nat) (sorted : Nat → List Nat) (file : List Pair) (N : Nat) :
    Option (List Pair) :=
  match dispatch option with
  | some .closest => some (closestEnumeration K n N sorted)
  | some .unconnected => some (connectUnconnected K n gmin comp sorted N)
  | some .read => some (readPairs K file)
  | none => none

/-! ### the oracles' reference implementations (executed by the driver) -/

section order
variable {α : Type} [LE α] [LT α] [DecidableLE α] [DecidableLT α]

/-- a sorting permutation of `row 0 … row (n-1)` (merge sort of the indices) -/
def argsort (row : Nat → α) (n : Nat) : List Nat :=
  (List.range n).mergeSort fun a b => decide (row a ≤ row b)

/-- `np.argmin`: index of the first smallest entry (0 on the empty list; the code only calls it
    with `n_minima ≥ 1`) -/
def argminFrom : List α → Nat → Nat → α → Nat
  | [], _, best, _ => best
  | x :: t, idx, best, bv => if x < bv then argminFrom t (idx + 1) idx x else argminFrom t (idx + 1) best bv

def argmin : List α → Nat
  | [] => 0
  | x :: t => argminFrom t 1 0 x

variable [DecidableEq α] [Zero α]

/-- generic positions (DESIGN §4.0): `d i i = 0 < d i j` and the entries of every row distinct -/
def genericB (d : Nat → Nat → α) (n : Nat) : Bool :=
  (List.range n).all fun i =>
    decide (d i i = 0) &&
    (List.range n).all fun j =>
      (j == i || decide (0 < d i j)) &&
      (List.range n).all fun k => (j == k || decide (d i j ≠ d i k))

end order

/-- canonical order for printing a set of pairs -/
def canon (l : List Pair) : List Pair :=
  l.mergeSort fun a b => a.1 < b.1 || (a.1 == b.1 && a.2 ≤ b.2)

end TopSearch.Pairs
