/-
  TopSearch.Model.IO — `KineticTransitionNetwork.dump_network / read_network`
  (src/topsearch/data/kinetic_transition_network.py).  Core Lean only.

  A text file is a list of rows, a row a list of fields.  `savetxt` writes one row per array
  row with the per-column format; `loadtxt` parses the rows back and then applies numpy's
  *shape rules* (squeeze to 0-d / 1-d unless `ndmin` forbids it, the empty file), which is where
  the original `read_network` went wrong.  `np.size(·, 0)` and the 2-index accesses of
  `read_network` are PARTIAL operations (`IndexError`), exactly as in numpy.

  Oracle contracts (numpy text I/O, validated by the harness on every run):
  * `%.18e` followed by `float()` is the identity on binary64 (coordinates pass unchanged);
  * `%8.5f` followed by `float()` is `round5` (an abstract function; contract: idempotent);
  * `%i` followed by `float()`/`int()` is the identity on the indices that occur;
  * `loadtxt`'s shape rules are the function `loadtxt` below (numpy 1.26.4).
-/
import TopSearch.Model.Ktn

namespace TopSearch.IO
open TopSearch TopSearch.Ktn

inductive IOErr where
  | indexError      -- numpy IndexError
  | valueError      -- numpy ValueError (ragged rows, bad ndmin, reshape of odd size, append of wrong width)
  | keyError        -- `G.nodes[i]` for a missing label (dump of an empty / badly numbered network)
  | historyShape    -- no exception, but `pairlist` does not have shape (r, 2) afterwards
  | badFile         -- file content `dump_network` cannot have produced (outside the model)
  deriving Repr, DecidableEq

/-- a field of a text file: an integer written with `%i`, or a real number -/
inductive Fld (α : Type) where
  | int (n : Nat)
  | real (x : α)
  deriving Repr, DecidableEq

/-- payload of a stationary point -/
structure Pt (α : Type) where
  coords : List α
  energy : α
  deriving Repr, DecidableEq

abbrev Table (α : Type) := List (List (Fld α))

/-- the five files of `dump_network` -/
structure Files (α : Type) where
  minData : Table α
  minCoords : Table α
  tsData : Table α
  tsCoords : Table α
  pairlist : Table α
  deriving Repr

/-- a numpy array of dimension 0, 1 or 2 (`cols` is kept because `(0, 1)` and `(0, 2)` differ) -/
inductive Arr (β : Type) where
  | d0 (x : β)
  | d1 (xs : List β)
  | d2 (rows : List (List β)) (cols : Nat)
  deriving Repr, DecidableEq

/-- `mapM` for `Except`, written out so that it is easy to reason about -/
def mapE {ε α β : Type} (f : α → Except ε β) : List α → Except ε (List β)
  | [] => .ok []
  | x :: xs =>
    match f x with
    | .error e => .error e
    | .ok y =>
      match mapE f xs with
      | .error e => .error e
      | .ok ys => .ok (y :: ys)

/-- `np.loadtxt(file, ndmin=ndmin)` on already parsed fields: blank lines are skipped, ragged
    rows are a `ValueError`, then the shape rules:
    `ndmin=2`: empty → `(0,1)`, else `(r,c)`;
    `ndmin=0`: empty → `(0,)`, 1×1 → 0-d, 1×c → `(c,)`, r×1 → `(r,)`, else `(r,c)`;
    `ndmin=1`: as 0 but 1×1 → `(1,)`. -/
def loadtxt {β : Type} (ndmin : Nat) (t : List (List β)) : Except IOErr (Arr β) :=
  if ndmin > 2 then .error .valueError
  else
    let rows := t.filter (fun r => !r.isEmpty)
    match rows with
    | [] => if ndmin = 2 then .ok (.d2 [] 1) else .ok (.d1 [])
    | r0 :: _ =>
      let c := r0.length
      if rows.any (fun r => r.length != c) then .error .valueError
      else if ndmin = 2 then .ok (.d2 rows c)
      else
        match rows with
        | [[x]] => if ndmin = 0 then .ok (.d0 x) else .ok (.d1 [x])
        | _ => if rows.length = 1 ∨ c = 1 then .ok (.d1 rows.flatten) else .ok (.d2 rows c)

/-- `np.size(a, 0)` -/
def size0 {β : Type} : Arr β → Except IOErr Nat
  | .d0 _ => .error .indexError
  | .d1 xs => .ok xs.length
  | .d2 rows _ => .ok rows.length

/-- `a[i, :]` -/
def getRow {β : Type} : Arr β → Nat → Except IOErr (List β)
  | .d2 rows _, i => match rows[i]? with | some r => .ok r | none => .error .indexError
  | _, _ => .error .indexError

/-- `a[i, j]` -/
def get2 {β : Type} (a : Arr β) (i j : Nat) : Except IOErr β :=
  match getRow a i with
  | .error e => .error e
  | .ok r => match r[j]? with | some x => .ok x | none => .error .indexError

def chunk2 {β : Type} : List β → Option (List (List β))
  | [] => some []
  | [_] => none
  | a :: b :: rest => (chunk2 rest).map ([a, b] :: ·)

def elems {β : Type} : Arr β → List β
  | .d0 x => [x]
  | .d1 xs => xs
  | .d2 rows _ => rows.flatten

/-- `a.reshape(-1, 2)` -/
def reshape2 {β : Type} (a : Arr β) : Except IOErr (Arr β) :=
  match chunk2 (elems a) with
  | some rows => .ok (.d2 rows 2)
  | none => .error .valueError

def pairOfRow : List Nat → Except IOErr (Nat × Nat)
  | [a, b] => .ok (a, b)
  | _ => .error .historyShape

/-- the array as a list of index pairs, when its shape is `(r, 2)` -/
def toPairs : Arr Nat → Except IOErr (List (Nat × Nat))
  | .d2 rows 2 => mapE pairOfRow rows
  | _ => .error .historyShape

/-- `int(x)` of a loaded field -/
def asInt {α : Type} : Fld α → Except IOErr Nat
  | .int n => .ok n
  | .real _ => .error .badFile

/-- a loaded field used as a float -/
def asReal {α : Type} : Fld α → Except IOErr α
  | .real x => .ok x
  | .int _ => .error .badFile

/-- how one table is loaded: the `ndmin=` keyword (numpy's default is 0), `dtype=int`, and
    whether `.reshape(-1, 2)` is applied to the result -/
structure LoadSpec where
  ndmin : Nat
  intDtype : Bool
  reshape2 : Bool
  deriving Repr, DecidableEq

/-- everything `read_network` says about shapes and indices; regenerated from the source by
    harness/translate/io_spec.py as `Gen.IOSpec.readSpec` -/
structure ReadSpec where
  minData : LoadSpec
  minCoords : LoadSpec
  tsData : LoadSpec
  tsCoords : LoadSpec
  pairlist : LoadSpec
  /-- `minima_data[i, 0]`, `minima_data[i, 1]` -/
  minLabelCol : Nat
  minEnergyCol : Nat
  /-- `ts_data[i, 0]`, `ts_data[i, 1]`, `ts_data[i, 2]` -/
  tsUCol : Nat
  tsVCol : Nat
  tsEnergyCol : Nat
  deriving Repr, DecidableEq

/-- the repaired `read_network`: every table `ndmin=2`, the history `dtype=int` and reshaped -/
def ReadSpec.repaired : ReadSpec :=
  { minData := ⟨2, false, false⟩, minCoords := ⟨2, false, false⟩, tsData := ⟨2, false, false⟩,
    tsCoords := ⟨2, false, false⟩, pairlist := ⟨2, true, true⟩,
    minLabelCol := 0, minEnergyCol := 1, tsUCol := 0, tsVCol := 1, tsEnergyCol := 2 }

/-- the original `read_network`: default `ndmin` for the four tables, no reshape -/
def ReadSpec.original : ReadSpec :=
  { ReadSpec.repaired with
    minData := ⟨0, false, false⟩, minCoords := ⟨0, false, false⟩, tsData := ⟨0, false, false⟩,
    tsCoords := ⟨0, false, false⟩, pairlist := ⟨2, true, false⟩ }

/-- format of one column in `savetxt` -/
inductive FmtK where
  | i      -- `%i`
  | f5     -- `%8.5f`
  | full   -- `%.18e` (savetxt's default)
  deriving Repr, DecidableEq

structure DumpSpec where
  tsData : List FmtK
  minData : List FmtK
  coords : FmtK
  pairlist : FmtK
  deriving Repr, DecidableEq

def DumpSpec.standard : DumpSpec := ⟨[.i, .i, .f5], [.i, .f5], .full, .i⟩

/-- a value handed to `savetxt` -/
inductive Val (α : Type) where
  | int (n : Nat)
  | real (x : α)

/-- one formatted field.  `%i` of an index and `%.18e` are exact, `%8.5f` rounds; `%i` applied
    to a real number or `%8.5f` to an index is not something the code does (→ `badFile`). -/
def fmtField {α : Type} (round5 : α → α) : FmtK → Val α → Except IOErr (Fld α)
  | .i, .int n => .ok (.int n)
  | .f5, .real x => .ok (.real (round5 x))
  | .full, .real x => .ok (.real x)
  | .full, .int n => .ok (.int n)
  | _, _ => .error .badFile

def fmtRow {α : Type} (round5 : α → α) : List FmtK → List (Val α) → Except IOErr (List (Fld α))
  | [], [] => .ok []
  | k :: ks, v :: vs =>
    match fmtField round5 k v with
    | .error e => .error e
    | .ok f => match fmtRow round5 ks vs with | .error e => .error e | .ok fs => .ok (f :: fs)
  | _, _ => .error .valueError        -- savetxt: fmt has wrong number of % formats

variable {α : Type}

/-- `G.nodes[i]` -/
def lookupMin (net : Ktn (Pt α)) (i : Nat) : Except IOErr (Nat × Pt α) :=
  match net.nodeData? i with
  | some p => .ok (i, p)
  | none => .error .keyError

/-- `dump_network`: the dimension is read off minimum 0 (`KeyError` for an empty network);
    minima are written for `i in range(n_minima)` through `G.nodes[i]`; transition states in
    `G.edges()` order (the order of `net.edges`: the harness hands the model the order it
    observed, the theorems hold for every order); `np.append(..., axis=0)` of a row of another
    width is a `ValueError`. -/
def dumpNetwork (round5 : α → α) (ds : DumpSpec) (net : Ktn (Pt α)) : Except IOErr (Files α) :=
  match net.nodeData? 0 with
  | none => .error .keyError
  | some p0 =>
    let ndim := p0.coords.length
    match mapE (lookupMin net) (List.range net.nMin) with
    | .error e => .error e
    | .ok mins =>
      if mins.any (fun ip => ip.2.coords.length != ndim) then .error .valueError
      else if net.edges.any (fun e => e.data.coords.length != ndim) then .error .valueError
      else
        match mapE (fun e => fmtRow round5 ds.tsData [.int e.u, .int e.v, .real e.data.energy]) net.edges,
              mapE (fun e => mapE (fun x => fmtField round5 ds.coords (.real x)) e.data.coords) net.edges,
              mapE (fun ip => fmtRow round5 ds.minData [.int ip.1, .real ip.2.energy]) mins,
              mapE (fun ip => mapE (fun x => fmtField round5 ds.coords (.real x)) ip.2.coords) mins,
              mapE (fun (p : Nat × Nat) => mapE (fun n => fmtField round5 ds.pairlist (.int n)) [p.1, p.2])
                   net.pairlist with
        | .ok td, .ok tc, .ok md, .ok mc, .ok pl =>
          .ok { minData := md, minCoords := mc, tsData := td, tsCoords := tc, pairlist := pl }
        | .error e, _, _, _, _ => .error e
        | _, .error e, _, _, _ => .error e
        | _, _, .error e, _, _ => .error e
        | _, _, _, .error e, _ => .error e
        | _, _, _, _, .error e => .error e

/-- one `np.loadtxt(...)` call of `read_network` with its keywords -/
def load (ls : LoadSpec) (t : Table α) : Except IOErr (Arr (Fld α)) :=
  match loadtxt ls.ndmin t with
  | .error e => .error e
  | .ok a => if ls.reshape2 then reshape2 a else .ok a

/-- `G.add_node(label, energy=…, coords=…)`: networkx updates an existing label in place -/
def addNode {δ : Type} (s : Ktn δ) (l : Nat) (d : δ) : Ktn δ :=
  if s.hasNode l then
    { s with nodes := s.nodes.map (fun nd => if nd.label == l then { nd with data := d } else nd) }
  else { s with nodes := s.nodes ++ [⟨l, d⟩] }

/-- `G.add_edge(u, v, …)` in `read_network`: `n_ts` is *not* touched (it was assigned from the
    table size); an edge to a label that is not a node would create an attribute-less node —
    no dump produces that, the model answers `badFile`. -/
def addEdge {δ : Type} (s : Ktn δ) (u v : Nat) (d : δ) : Except IOErr (Ktn δ) :=
  if s.hasNode u && s.hasNode v then .ok { s.addTs true d u v with nTs := s.nTs }
  else .error .badFile

def addEdges {δ : Type} : Ktn δ → List (Nat × Nat × δ) → Except IOErr (Ktn δ)
  | s, [] => .ok s
  | s, (u, v, d) :: rest =>
    match addEdge s u v d with
    | .error e => .error e
    | .ok s' => addEdges s' rest

/-- the history table: `np.loadtxt(..., ndmin=…, dtype=int)[.reshape(-1, 2)]` -/
def loadPairs (ls : LoadSpec) (t : Table α) : Except IOErr (Arr Nat) :=
  match mapE (mapE (fun (x : Fld α) => asInt x)) t with
  | .error _ => .error .valueError
  | .ok ti =>
    match loadtxt ls.ndmin ti with
    | .error e => .error e
    | .ok a => if ls.reshape2 then reshape2 a else .ok a

/-- row `i` of the node loop: `int(minima_data[i, 0])`, `minima_data[i, 1]`, `minima_coords[i, :]` -/
def readNode (spec : ReadSpec) (md mc : Arr (Fld α)) (i : Nat) : Except IOErr (Nat × Pt α) := do
  let l ← get2 md i spec.minLabelCol
  let l ← asInt l
  let e ← get2 md i spec.minEnergyCol
  let e ← asReal e
  let c ← getRow mc i
  let c ← mapE asReal c
  pure (l, (⟨c, e⟩ : Pt α))

/-- row `i` of the edge loop -/
def readEdge (spec : ReadSpec) (td tc : Arr (Fld α)) (i : Nat) : Except IOErr (Nat × Nat × Pt α) := do
  let u ← get2 td i spec.tsUCol
  let u ← asInt u
  let v ← get2 td i spec.tsVCol
  let v ← asInt v
  let e ← get2 td i spec.tsEnergyCol
  let e ← asReal e
  let c ← getRow tc i
  let c ← mapE asReal c
  pure (u, v, (⟨c, e⟩ : Pt α))

/-- the graph built from the rows read: counters assigned from the table sizes, nodes added
    in row order, then edges -/
def buildNetwork (n m : Nat) (nodes : List (Nat × Pt α)) (edges : List (Nat × Nat × Pt α)) :
    Except IOErr (Ktn (Pt α)) :=
  addEdges (nodes.foldl (fun s ld => addNode s ld.1 ld.2) { nMin := n, nTs := m }) edges

/-- `read_network` into a fresh (empty) network.  Order of evaluation as in the code: the five
    `loadtxt` calls, `n_minima = np.size(minima_data, 0)`, the node loop, `n_ts = np.size(ts_data, 0)`,
    the edge loop.  Finally the history must have shape `(r, 2)` to be a history at all.
    (An exception aborts the whole call, so reading all rows before building the graph gives the
    same outcome as the code's row-by-row loop.) -/
def readNetwork (spec : ReadSpec) (f : Files α) : Except IOErr (Ktn (Pt α)) := do
  let md ← load spec.minData f.minData
  let mc ← load spec.minCoords f.minCoords
  let td ← load spec.tsData f.tsData
  let tc ← load spec.tsCoords f.tsCoords
  let pl ← loadPairs spec.pairlist f.pairlist
  let n ← size0 md
  let nodes ← mapE (readNode spec md mc) (List.range n)
  let m ← size0 td
  let edges ← mapE (readEdge spec td tc) (List.range m)
  let s1 ← buildNetwork n m nodes edges
  let h ← toPairs pl
  pure { s1 with pairlist := h }

/-- what a network looks like after a save/restore: energies to the five decimals written -/
def roundPt (round5 : α → α) (p : Pt α) : Pt α := { p with energy := round5 p.energy }

def roundNet (round5 : α → α) (net : Ktn (Pt α)) : Ktn (Pt α) :=
  { net with nodes := net.nodes.map (fun nd => { nd with data := roundPt round5 nd.data })
             edges := net.edges.map (fun e => { e with data := roundPt round5 e.data }) }

end TopSearch.IO
