/-
  TopSearch.Model.BasinHopping — `BasinHopping.run`, `prepare_initial_coordinates` and
  `metropolis` (src/topsearch/global_optimisation/basin_hopping.py) as the code executes them.
  Core Lean only.

  External components are *inputs* of the model, one record per step (`StepIn`): what the step
  taker did, what the local minimiser answered, what `same_bonds()` answered, where the
  similarity gate left `coords.position`, the Boltzmann factor and the uniform draw.
  The model adds no arithmetic of its own: everything it decides is decided by the kernels in
  `Kern` (failure tests, Metropolis rule, and which of the five save/restore sites copy), which
  the translator regenerates from the source (`Gen/BasinHopping.lean`).

  Value versus reference.  Python's `coords.position` and `markov_coords` are references to
  numpy arrays and `StandardPerturbation.perturb` / `AtomicPerturbation.perturb` displace
  `coords.position` **in place**.  `Saved.alias` records that `markov_coords` is the very same
  array object as `coords.position`; an in-place perturbation then displaces the saved minimum
  too.  With every site copying (`CopyCfg.byValue`, the repaired code) the alias never arises;
  with `CopyCfg.original` the model reproduces the original behaviour.
-/
import TopSearch.Model.Ktn
namespace TopSearch.BH

/-- what the network stores for a minimum: coordinates and energy -/
structure Pt (α : Type) where
  pos : List α
  e : α
  deriving Repr, DecidableEq

/-- `markov_coords`: an array object of its own (with this value), or THE SAME array object as
    `coords.position` -/
inductive Saved (α : Type) where
  | val (v : List α)
  | alias
  deriving Repr, DecidableEq

/-- does each save/restore site of `run` copy?  (`x.copy()`, `np.copy(x)`, `np.array(x, copy=True)`)
    * `initSave`      `markov_coords = coords.position.copy()` before the loop
    * `failRestore`   `coords.position = markov_coords.copy()` after a failed minimisation
    * `bondRestore`   the same after `same_bonds()` answered False
    * `acceptSave`    `markov_coords = coords.position.copy()` after an accepted step
    * `rejectRestore` `coords.position = markov_coords.copy()` after a rejected step -/
structure CopyCfg where
  initSave : Bool
  failRestore : Bool
  bondRestore : Bool
  acceptSave : Bool
  rejectRestore : Bool
  deriving Repr, DecidableEq

def CopyCfg.all (c : CopyCfg) : Bool :=
  c.initSave && c.failRestore && c.bondRestore && c.acceptSave && c.rejectRestore

/-- the repaired code: every site copies -/
def CopyCfg.byValue : CopyCfg := ⟨true, true, true, true, true⟩
/-- the code before the repair: only the initial save copied -/
def CopyCfg.original : CopyCfg := ⟨true, false, false, false, false⟩

/-- the decision kernels of the code, as read from the source -/
structure Kern (α : Type) where
  copy : CopyCfg
  /-- loop: `results_dict['warnflag'] != 0 or results_dict['task'] == '…REL_REDUCTION…'` -/
  loopFails : Int → Bool → Bool
  /-- `prepare_initial_coordinates`: `results_dict['warnflag'] == 0` -/
  initStores : Int → Bool
  /-- `metropolis` as a function of (energy1, energy2, boltzmann_factor, uniform_random) -/
  accept : α → α → α → α → Bool

section kernels
variable {α : Type} [LT α] [DecidableLT α]

/-- `if energy2 < energy1: return True; …; return bool(boltzmann_factor > uniform_random)` -/
def metropolisDecide (e1 e2 boltz u : α) : Bool :=
  if e2 < e1 then true else decide (u < boltz)

/-- the argument of `np.exp`: `-(energy2-energy1)/temperature` -/
def exponent [Neg α] [Sub α] [Div α] (e1 e2 T : α) : α := (-(e2 - e1)) / T

/-- `metropolis(energy1, energy2, temperature)` with the uniform draw `u` and `exp` as inputs -/
def metropolis [Neg α] [Sub α] [Div α] (expf : α → α) (e1 e2 T u : α) : Bool :=
  metropolisDecide e1 e2 (expf (exponent e1 e2 T)) u

def loopFails (warn : Int) (relRed : Bool) : Bool := warn != 0 || relRed
def initStores (warn : Int) : Bool := warn == 0

/-- the hand-written reference kernels (what the theorems are about); the bridge lemmas of
    Props/C07, C08 show the regenerated kernels equal them -/
def Kern.model : Kern α :=
  ⟨CopyCfg.byValue, TopSearch.BH.loopFails, TopSearch.BH.initStores, TopSearch.BH.metropolisDecide⟩

end kernels

variable {α : Type}

/-- answer of the first minimisation (`prepare_initial_coordinates`) -/
structure InitIn (α : Type) where
  minPos : List α
  minE : α
  warn : Int
  /-- `coords.position` after `test_new_minimum` (the molecular similarity recentres the
      structure it compares; the standard one leaves it alone: `gated = minPos`) -/
  gated : List α
  deriving Repr

/-- everything the outside world contributes to one iteration of the loop -/
structure StepIn (α : Type) where
  /-- `coords.position` after `perturb` (and clash removal): the minimiser's start point -/
  perturbed : List α
  /-- what `perturb` left in the array object that *was* `coords.position` on entry
      (in-place displacement: the displaced, unclipped point; a step taker that does not write
      in place leaves the entry value) -/
  left : List α
  minPos : List α
  minE : α
  warn : Int
  /-- `results_dict['task'] == 'CONVERGENCE: REL_REDUCTION_OF_F_<=_FACTR*EPSMCH'` -/
  relRed : Bool
  /-- `coords.same_bonds()` (only asked for atomic / molecular coordinates) -/
  bondsOk : Bool
  /-- `coords.position` after `test_new_minimum` (see `InitIn.gated`) -/
  gated : List α
  boltz : α
  u : α
  deriving Repr

/-- the variables of `run` -/
structure State (α : Type) where
  /-- value of the array `coords.position` refers to -/
  walker : List α
  /-- `markov_coords` -/
  markov : Saved α
  /-- `markov_energy` -/
  markovE : α
  /-- the local variable `energy` -/
  energy : α
  net : Ktn (Pt α)

/-- the value `markov_coords` currently holds -/
def State.markovVal (s : State α) : List α :=
  match s.markov with
  | .val v => v
  | .alias => s.walker

/-- `similarity.test_new_minimum(ktn, coords, energy)`: insert unless some stored minimum
    matches the candidate under `same` (`is_new_minimum` scans the minima `0..n_minima-1`). -/
def insertUnlessMatch (same : Pt α → Pt α → Bool) (net : Ktn (Pt α)) (c : Pt α) : Ktn (Pt α) :=
  if net.nodes.any (fun nd => same c nd.data) then net else net.addMin c

/-- `self.step_taking.perturb(coords)`: the walker becomes the perturbed point; if
    `markov_coords` is the same array object it now holds what the in-place update left there.
    (`coords.position` is re-bound to a fresh array before anything else writes in place —
    by `move_to_bounds`, `coords.position = min_position` or a restore — so the alias can be
    resolved here.) -/
def perturb (s : State α) (i : StepIn α) : State α :=
  { s with walker := i.perturbed
           markov := match s.markov with
                     | .val v => .val v
                     | .alias => .val i.left }

/-- `coords.position = markov_coords.copy()` (`copies`) / `coords.position = markov_coords` -/
def restore (copies : Bool) (s : State α) : State α :=
  { s with walker := s.markovVal
           markov := if copies then .val s.markovVal else .alias }

/-- `markov_coords = coords.position.copy()` (`copies`) / `markov_coords = coords.position` -/
def save (copies : Bool) (s : State α) : State α :=
  { s with markov := if copies then .val s.walker else .alias }

/-- the gate call: the similarity may re-bind `coords.position` (to `gated`), then the
    candidate `(coords.position, energy)` is inserted unless it matches a stored minimum -/
def gate (same : Pt α → Pt α → Bool) (gated : List α) (s : State α) : State α :=
  { s with walker := gated, net := insertUnlessMatch same s.net ⟨gated, s.energy⟩ }

inductive Decision where
  | fail      -- minimisation did not converge: restore, `continue`
  | bonds     -- bonds changed: restore, `continue`
  | accept
  | reject
  deriving DecidableEq, Repr

/-- which path of the loop body is taken.  `atomic` is
    `isinstance(coords, (AtomicCoordinates, MolecularCoordinates))`; `metropolis` is called
    with `(markov_energy, energy)` where `energy` is the minimiser's answer of this step. -/
def decision (k : Kern α) (atomic : Bool) (s : State α) (i : StepIn α) : Decision :=
  if k.loopFails i.warn i.relRed then .fail
  else if atomic && !i.bondsOk then .bonds
  else if k.accept s.markovE i.minE i.boltz i.u then .accept
  else .reject

/-- one iteration of the loop of `run`, path by path -/
def step (k : Kern α) (same : Pt α → Pt α → Bool) (atomic : Bool) (s : State α) (i : StepIn α) :
    State α :=
  -- self.step_taking.perturb(coords)
  let s1 := perturb s i
  -- min_position, energy, results_dict = lbfgs.minimise(...)
  let s2 := { s1 with energy := i.minE }
  match decision k atomic s i with
  | .fail =>
      -- coords.position = markov_coords.copy(); continue     (`energy` keeps the failed value)
      restore k.copy.failRestore s2
  | .bonds =>
      -- coords.position = min_position; …; coords.position = markov_coords.copy(); continue
      restore k.copy.bondRestore { s2 with walker := i.minPos }
  | .accept =>
      -- coords.position = min_position; test_new_minimum; markov_coords = coords.position.copy()
      let s4 := gate same i.gated { s2 with walker := i.minPos }
      { save k.copy.acceptSave s4 with markovE := s4.energy }
  | .reject =>
      -- coords.position = min_position; test_new_minimum;
      -- coords.position = markov_coords.copy(); energy = markov_energy
      let s4 := gate same i.gated { s2 with walker := i.minPos }
      { restore k.copy.rejectRestore s4 with energy := s4.markovE }

/-- `energy = prepare_initial_coordinates(coords, conv_crit)` followed by
    `markov_coords = coords.position.copy(); markov_energy = energy`.  Only `warnflag` is
    tested here (not the REL_REDUCTION task); the energy is returned whether or not the
    minimisation converged. -/
def init (k : Kern α) (same : Pt α → Pt α → Bool) (net0 : Ktn (Pt α)) (i : InitIn α) : State α :=
  -- coords.position = min_position; if warnflag == 0: test_new_minimum(...)
  let s0 : State α := { walker := i.minPos, markov := .alias, markovE := i.minE, energy := i.minE,
                        net := net0 }
  let s1 := if k.initStores i.warn then gate same i.gated s0 else s0
  save k.copy.initSave s1

/-- the loop: `for i in range(n_steps)` over the per-step inputs -/
def run (k : Kern α) (same : Pt α → Pt α → Bool) (atomic : Bool) (s : State α)
    (ins : List (StepIn α)) : State α :=
  ins.foldl (step k same atomic) s

/-- `BasinHopping.run` from the first minimisation to the end of the loop -/
def runAll (k : Kern α) (same : Pt α → Pt α → Bool) (atomic : Bool) (net0 : Ktn (Pt α))
    (i0 : InitIn α) (ins : List (StepIn α)) : State α :=
  run k same atomic (init k same net0 i0) ins

end TopSearch.BH
