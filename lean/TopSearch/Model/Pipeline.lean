/-
  TopSearch.Model.Pipeline — the public landscape-exploration calls of `NetworkSampling`
  (src/topsearch/sampling/exploration.py) as a stream of operations on the network store.
  Core Lean only.  Every mutation of the network made by `get_minima`, `get_transition_states`,
  `reconverge_minima`, `reconverge_landscape` (and `add_network`) is one of:

  * an *offer* to the similarity gate (Model/Merge.lean): a minimum (`test_new_minimum`), a
    successful search record (`test_new_ts`), a failed search (nothing), a merge, a reset;
  * a *pruning* `remove_minima ks` (invalid minima after basin-hopping, minima at the bounds before
    and after a connection cycle).

  The trace-driven correspondence (harness/props/c01.py) logs exactly these events from the real
  pipeline by wrapping the gate entry points and the store's removal/reset from outside and replays
  them through this model.
-/
import TopSearch.Model.Ktn
import TopSearch.Model.Merge

namespace TopSearch.Pipeline
open TopSearch TopSearch.Ktn TopSearch.Merge

variable {δ : Type}

inductive POp (δ : Type) where
  | offer (o : Offer δ)
  | prune (ks : List Nat)
  deriving Repr

/-- pruning names existing, distinct minima (what `get_invalid_minima` / `get_bounds_minima` return) -/
def POp.valid (s : Ktn δ) : POp δ → Bool
  | .offer _ => true
  | .prune ks => ks.all (fun k => decide (k < s.nMin)) && decide ks.Nodup

def pstep (same : δ → δ → Bool) (cfg : Ktn.Cfg) (s : Ktn δ) : POp δ → Ktn δ
  | .offer o => Merge.offer same cfg.addTsCountsOnlyNew s o
  | .prune ks => s.removeMinima cfg.removeRenumbersHistory ks

/-- run a pipeline history; `none` at the first pruning outside the guard -/
def prun (same : δ → δ → Bool) (cfg : Ktn.Cfg) : Ktn δ → List (POp δ) → Option (Ktn δ)
  | s, [] => some s
  | s, op :: ops => if op.valid s then prun same cfg (pstep same cfg s op) ops else none

end TopSearch.Pipeline
