/-
  TopSearch.Model.Moves — the box predicates of `StandardCoordinates`
  (src/topsearch/data/coordinates.py: check_bounds, at_bounds, all_bounds, active_bounds,
  move_to_bounds), the random displacements of global_optimisation/perturbations.py
  (StandardPerturbation, AtomicPerturbation, the angle draw of MolecularPerturbation) and the
  rigid-fragment moves of `MolecularCoordinates` (rotate_dihedral, get_rotation_matrix,
  rotate_angle, change_bond_length).  Core Lean only; every definition is generic over the
  number type (executed at `Rat` by Drivers/Moves.lean, proved over ordered fields in Props/C20.lean).

  External components are inputs: the uniform draws (`np.random.rand`, `random.random` ∈ [0,1)),
  the atoms returned by `random.sample` (contract: distinct members of the population), the
  rotation `Q` returned by scipy's `align_vectors` and the rotation scipy builds from a rotation
  vector (contract: orthogonal matrices), `cos`/`sin` (contract: c² + s² = 1), and the moved set
  returned by `get_movable_atoms` (a networkx computation).
-/
namespace TopSearch.Moves

/-! ### box predicates -/

/-- one coordinate with its bounds -/
structure Coord (α : Type) where
  x : α
  lo : α
  hi : α
  deriving Repr

section box
variable {α : Type} [LT α] [LE α] [DecidableLT α] [DecidableLE α]

/-- `np.invert((position > lower) & (position < upper))`, one coordinate -/
def checkBounds1 (x lo hi : α) : Bool := !(decide (x > lo) && decide (x < hi))

/-- `below_bounds = position <= lower`, `above_bounds = position >= upper`, returned in this order -/
def activeBounds1 (x lo hi : α) : Bool × Bool := (decide (x ≤ lo), decide (x ≥ hi))

/-- `np.clip(a, a_min, a_max)` = `minimum(a_max, maximum(a, a_min))` -/
def npClip (a amin amax : α) : α :=
  let y := if a < amin then amin else a
  if amax < y then amax else y

/-- `np.clip(position, lower, upper)`, one coordinate -/
def clip1 (x lo hi : α) : α := npClip x lo hi

def checkBounds (cs : List (Coord α)) : List Bool := cs.map fun c => checkBounds1 c.x c.lo c.hi
/-- `np.any(check_bounds())` -/
def atBounds (cs : List (Coord α)) : Bool := (checkBounds cs).any id
/-- `np.all(check_bounds())` -/
def allBounds (cs : List (Coord α)) : Bool := (checkBounds cs).all id
def activeBounds (cs : List (Coord α)) : List Bool × List Bool :=
  (cs.map fun c => (activeBounds1 c.x c.lo c.hi).1, cs.map fun c => (activeBounds1 c.x c.lo c.hi).2)
def moveToBounds (cs : List (Coord α)) : List (Coord α) :=
  cs.map fun c => { c with x := clip1 c.x c.lo c.hi }

end box

/-! ### random displacements -/

section steps
variable {α : Type} [Add α] [Sub α] [Mul α] [Div α] [NatCast α]

/-- the literal `0.5` -/
def half : α := ((1 : Nat) : α) / ((2 : Nat) : α)

/-- `set_step_sizes`: `max_displacement`, times the box width when proportional -/
def stepSize (proportional : Bool) (m lo hi : α) : α :=
  if proportional then (hi - lo) * m else m

/-- `(np.random.rand(ndim) - 0.5) * step_sizes`, one coordinate -/
def stdPerturbation (u s : α) : α := (u - half) * s

/-- `np.random.rand(max_atoms, 3) * max_displacement - 0.5 * max_displacement`, one entry -/
def atomicPerturbation (u m : α) : α := u * m - half * m

/-- `((random.random() * 2.0) - 1.0) * max_displacement` (MolecularPerturbation's angle) -/
def molecularAngle (u m : α) : α := (u * ((2 : Nat) : α) - ((1 : Nat) : α)) * m

variable [LT α] [DecidableLT α]

/-- `StandardPerturbation.perturb`, one coordinate: displace, then clip -/
def stdPerturb1 (proportional : Bool) (m u : α) (c : Coord α) : α :=
  clip1 (c.x + stdPerturbation u (stepSize proportional m c.lo c.hi)) c.lo c.hi

/-- `StandardPerturbation.perturb` on the whole position (`us` = the draws of `np.random.rand`) -/
def stdPerturb (proportional : Bool) (m : α) (us : List α) (cs : List (Coord α)) : List α :=
  List.zipWith (fun u c => stdPerturb1 proportional m u c) us cs

end steps

section atomic
variable {α : Type} [Add α] [Sub α] [Mul α] [Div α] [NatCast α]

/-- the population `range(lo, hi)` of `random.sample` -/
def population (lo hi : Nat) : List Nat := (List.range hi).drop lo

/-- the atoms picked by `random.sample(range(1, int(ndim/3)), max_atoms)`, given the positions
    `idx` the sampler drew inside the population (`none`: a position outside the population) -/
def sampleAtoms (lo hi : Nat) (idx : List Nat) : Option (List Nat) :=
  idx.mapM fun k => (population lo hi)[k]?

/-- `position[3a : 3a+3] += (p0, p1, p2)` -/
def addAtom (pos : List α) (a : Nat) (p0 p1 p2 : α) : List α :=
  ((pos.modify (3 * a) (· + p0)).modify (3 * a + 1) (· + p1)).modify (3 * a + 2) (· + p2)

/-- `AtomicPerturbation.perturb`: the loop `for i in range(max_atoms)` over the sampled atoms
    with the rows of `np.random.rand(max_atoms, 3)` -/
def atomicPerturb (m : α) : List Nat → List (α × α × α) → List α → List α
  | a :: as, (u0, u1, u2) :: us, pos =>
    atomicPerturb m as us
      (addAtom pos a (atomicPerturbation u0 m) (atomicPerturbation u1 m) (atomicPerturbation u2 m))
  | _, _, pos => pos

end atomic

/-! ### rotation algebra (3-vectors and 3×3 matrices as explicit components) -/

structure V3 (α : Type) where
  x : α
  y : α
  z : α
  deriving Repr, DecidableEq

structure M3 (α : Type) where
  a11 : α
  a12 : α
  a13 : α
  a21 : α
  a22 : α
  a23 : α
  a31 : α
  a32 : α
  a33 : α
  deriving Repr, DecidableEq

section rot
variable {α : Type} [Add α] [Sub α] [Mul α] [Neg α] [Zero α] [One α]

def V3.add (u v : V3 α) : V3 α := ⟨u.x + v.x, u.y + v.y, u.z + v.z⟩
def V3.sub (u v : V3 α) : V3 α := ⟨u.x - v.x, u.y - v.y, u.z - v.z⟩
def V3.smul (k : α) (v : V3 α) : V3 α := ⟨k * v.x, k * v.y, k * v.z⟩
def V3.dot (u v : V3 α) : α := u.x * v.x + u.y * v.y + u.z * v.z
/-- squared Euclidean distance -/
def V3.dist2 (u v : V3 α) : α := V3.dot (V3.sub u v) (V3.sub u v)

def M3.one : M3 α := ⟨1, 0, 0, 0, 1, 0, 0, 0, 1⟩
def M3.transpose (m : M3 α) : M3 α :=
  ⟨m.a11, m.a21, m.a31, m.a12, m.a22, m.a32, m.a13, m.a23, m.a33⟩
def M3.mulVec (m : M3 α) (v : V3 α) : V3 α :=
  ⟨m.a11 * v.x + m.a12 * v.y + m.a13 * v.z,
   m.a21 * v.x + m.a22 * v.y + m.a23 * v.z,
   m.a31 * v.x + m.a32 * v.y + m.a33 * v.z⟩
def M3.mul (m k : M3 α) : M3 α :=
  ⟨m.a11 * k.a11 + m.a12 * k.a21 + m.a13 * k.a31, m.a11 * k.a12 + m.a12 * k.a22 + m.a13 * k.a32,
   m.a11 * k.a13 + m.a12 * k.a23 + m.a13 * k.a33,
   m.a21 * k.a11 + m.a22 * k.a21 + m.a23 * k.a31, m.a21 * k.a12 + m.a22 * k.a22 + m.a23 * k.a32,
   m.a21 * k.a13 + m.a22 * k.a23 + m.a23 * k.a33,
   m.a31 * k.a11 + m.a32 * k.a21 + m.a33 * k.a31, m.a31 * k.a12 + m.a32 * k.a22 + m.a33 * k.a32,
   m.a31 * k.a13 + m.a32 * k.a23 + m.a33 * k.a33⟩

/-- `get_rotation_matrix`: rotation about the x axis; `c`, `s` stand for `np.cos(angle)`,
    `np.sin(angle)` -/
def rotX (c s : α) : M3 α := ⟨1, 0, 0, 0, c, -s, 0, s, c⟩

/-- the linear part of `rotate_dihedral` on a moved atom: `undo · R_x · best_rotation`
    with `undo = transpose(best_rotation)` -/
def dihedralMatrix (Q : M3 α) (c s : α) : M3 α := (M3.transpose Q).mul ((rotX c s).mul Q)

/-- `rotate_dihedral`, one atom, step by step as coded: translate `atom1` to the origin, apply
    `best_rotation` = `Q` (to every atom), rotate about x by `Rx` (moved atoms only), apply the
    undo rotation `U` (to every atom), translate back. -/
def rotateDihedralWith (Q U Rx : M3 α) (atom1 : V3 α) (moved : Bool) (p : V3 α) : V3 α :=
  let q := Q.mulVec (p.sub atom1)
  let r := if moved then Rx.mulVec q else q
  (U.mulVec r).add atom1

/-- `rotate_dihedral` as it stands: `U = transpose(Q)`, `Rx = get_rotation_matrix(angle)` -/
def rotateDihedral1 (Q : M3 α) (c s : α) (atom1 : V3 α) (moved : Bool) (p : V3 α) : V3 α :=
  rotateDihedralWith Q (M3.transpose Q) (rotX c s) atom1 moved p

/-- `rotate_angle`, one atom: moved atoms are rotated about `atom2` by the rotation `R` scipy
    builds from the rotation vector; the others are only translated there and back. -/
def rotateAngle1 (R : M3 α) (atom2 : V3 α) (moved : Bool) (p : V3 α) : V3 α :=
  let q := p.sub atom2
  (if moved then R.mulVec q else q).add atom2

/-- `change_bond_length`, one atom: moved atoms are translated by `length * (atom2 - atom1)` -/
def changeBondLength1 (len : α) (atom1 atom2 : V3 α) (moved : Bool) (p : V3 α) : V3 α :=
  if moved then p.add (V3.smul len (atom2.sub atom1)) else p

/-- a move applied to a molecule: atom `i` is treated as moved iff `i ∈ movedAtoms` -/
def applyMove (f : Bool → V3 α → V3 α) (movedAtoms : List Nat) (pos : List (V3 α)) : List (V3 α) :=
  (List.zipIdx pos).map fun (p, i) => f (movedAtoms.contains i) p

end rot

end TopSearch.Moves
