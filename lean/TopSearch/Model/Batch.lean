/-
  TopSearch.Model.Batch — src/topsearch/analysis/batch_selection.py as it behaves.
  Core Lean only.

  * `order` is the permutation returned by `np.argsort(energies)` (get_ordered_minima).  numpy's
    default sort is not stable, so the permutation is an *input* of the model; the theorems hold
    for every sorting permutation and the driver is fed the permutation numpy returned.
  * `height` is the descending scan of Model/Graph.lean (`disconnected_height`).
  * Aliasing is modelled as it happens: `barrier_batch_selector` appends to the list object it is
    given as `current_batch_indices`; in `topographical_batch_selector` that object *is*
    `monotonic_indices`, so after the call the "monotonic" list already holds the barrier picks,
    the comprehension `[i for i in barrier_indices if i not in monotonic_indices]` is empty, and
    the returned concatenation is (mutated monotonic list) + [].  `fill_batch` extends its
    argument in place and returns it.
-/
import TopSearch.Model.Graph

namespace TopSearch.Batch
open TopSearch.Graph

/-- what the translator reads from batch_selection.py -/
structure BCfg where
  /-- `if ktn.get_minimum_energy(min2) <= energy_i: monotonic = False` -/
  monoCmp : Cmp := .le
  /-- `if height > 1e9: return False` -/
  sentCmp : Cmp := .gt
  sentThr : Nat := 1000000000
  /-- the value `disconnected_height` returns for "never separated": `1e10` -/
  sentinel : Nat := 10000000000
  /-- `min(barrier1, barrier2)` (true) / `max(...)` (false) -/
  useMin : Bool := true
  /-- `if min(barrier1, barrier2) < absolute_barrier_cutoff: return False` -/
  barrierCmp : Cmp := .lt
  /-- `max_ts_energy = 1e5` when the network has no transition state -/
  noTsMax : Nat := 100000
  /-- barrier selector: `(i in current_batch_indices) or (i in excluded_minima)` → skip -/
  barrierSkipsCurrent : Bool := true
  barrierSkipsExcluded : Bool := true
  /-- the `e_range` handed to the scan by barrier_batch_selector:
      `max(np.max(energies), max_ts_energy) - np.min(energies)` (true, repaired code) or
      `np.max(energies) - np.min(energies)` (false, original code) -/
  scanRangeIncludesTs : Bool := true
  /-- dispatch strings of generate_batch in source order: Lowest, Monotonic, Barrier, Topographical -/
  schemes : List String := ["Lowest", "Monotonic", "Barrier", "Topographical"]
  deriving DecidableEq, Repr, Inhabited

def stdBCfg : BCfg := {}

section
variable {α : Type}

/-- `lowest_batch_selector`: `[i for i in ordered_indices if i not in excluded_minima]` -/
def lowest (order excl : List Nat) : List Nat := order.filter (fun i => !(excl.contains i))

/-- `fill_batch`: `batch_indices += lowest_batch_selector(ktn, excluded_minima+batch_indices)` -/
def fill (order excl batch : List Nat) : List Nat := batch ++ lowest order (excl ++ batch)

/-- `G.edges(i)`: the other end of every edge at `i` (a self-connection is listed once) -/
def nbrs (es : List (WEdge α)) (i : Nat) : List Nat :=
  es.filterMap (fun x => if x.u == i then some x.v else if x.v == i then some x.u else none)

section ord
variable [LT α] [LE α] [DecidableLT α] [DecidableLE α]

/-- the inner loop of `monotonic_batch_selector` for minimum `i`: self-connections and excluded
    neighbours are skipped; any other neighbour with `energy <= energy_i` spoils it -/
def monoOk (c : Cmp) (energy : Nat → α) (es : List (WEdge α)) (excl : List Nat) (i : Nat) : Bool :=
  (nbrs es i).all (fun j => j == i || excl.contains j || !(c.eval (energy j) (energy i)))

/-- `monotonic_batch_selector` -/
def monotonic (c : Cmp) (energy : Nat → α) (es : List (WEdge α)) (order excl : List Nat) : List Nat :=
  order.filter (fun i => !((nbrs es i).isEmpty || excl.contains i) && monoOk c energy es excl i)

variable [Sub α] [NatCast α]

/-- `sufficient_barrier` given the scanned height (`none` = the sentinel value) -/
def sufficient (cfg : BCfg) (h : Option α) (ei ej cutoff : α) : Bool :=
  let hv : α := match h with
    | none => (cfg.sentinel : α)
    | some x => x
  if cfg.sentCmp.eval hv (cfg.sentThr : α) then false
  else
    let b1 := hv - ei
    let b2 := hv - ej
    -- Python's min(a, b) = b if b < a else a ;  max(a, b) = b if b > a else a
    let b := if cfg.useMin then (if b2 < b1 then b2 else b1) else (if b1 < b2 then b2 else b1)
    if cfg.barrierCmp.eval b cutoff then false else true

end ord

/-- the loop of `barrier_batch_selector`.  State = (`batch_indices`, `current_batch_indices`);
    both are appended to.  `suff i j` is `sufficient_barrier(ktn, i, j, …)`. -/
def barrierLoop (skipCur skipExcl : Bool) (suff : Nat → Nat → Bool) (excl : List Nat) :
    List Nat → List Nat → List Nat → List Nat × List Nat
  | [], b, c => (b, c)
  | i :: rest, b, c =>
    if (skipCur && c.contains i) || (skipExcl && excl.contains i) then
      barrierLoop skipCur skipExcl suff excl rest b c
    else if c.all (fun j => suff i j) then
      barrierLoop skipCur skipExcl suff excl rest (b ++ [i]) (c ++ [i])
    else barrierLoop skipCur skipExcl suff excl rest b c

/-- a network as the selectors see it -/
structure Net (α : Type) where
  n : Nat
  energy : Nat → α
  edges : List (WEdge α)
  /-- `np.argsort(energies)` -/
  order : List Nat

section sel
variable [LT α] [LE α] [DecidableLT α] [DecidableLE α] [Add α] [Sub α] [Mul α] [Div α] [NatCast α]

/-- `np.max(ts_energies)` over the edge list (first maximum), `1e5` without edges -/
def maxTs (cfg : BCfg) (es : List (WEdge α)) : α :=
  match es with
  | [] => (cfg.noTsMax : α)
  | x :: xs => xs.foldl (fun m y => if m < y.e then y.e else m) x.e

/-- `np.max(energies) - np.min(energies)` -/
def eRange (net : Net α) : α := maxOf net.energy net.n - minOf net.energy net.n

/-- the `e_range` of barrier_batch_selector (Python's `max(a, b)` is `b if b > a else a`) -/
def scanRange (cfg : BCfg) (net : Net α) : α :=
  let a := maxOf net.energy net.n
  let b := maxTs cfg net.edges
  (if cfg.scanRangeIncludesTs then (if a < b then b else a) else a) - minOf net.energy net.n

/-- `sufficient_barrier(ktn, i, j, max_ts_energy, e_range, cutoff)` -/
def suffNet (g : Cfg) (cfg : BCfg) (net : Net α) (cutoff : α) (i j : Nat) : Bool :=
  sufficient cfg (height g net.n net.edges i j (maxTs cfg net.edges) (scanRange cfg net))
    (net.energy i) (net.energy j) cutoff

/-- `barrier_batch_selector(ktn, excl, cutoff, current)`: returns (`batch_indices`, the mutated
    `current_batch_indices`) -/
def barrierSel (g : Cfg) (cfg : BCfg) (net : Net α) (excl : List Nat) (cutoff : α)
    (current : List Nat) : List Nat × List Nat :=
  barrierLoop cfg.barrierSkipsCurrent cfg.barrierSkipsExcluded (suffNet g cfg net cutoff) excl
    net.order [] current

/-- `topographical_batch_selector`, with the aliasing of the monotonic list as it happens -/
def topographical (g : Cfg) (cfg : BCfg) (net : Net α) (excl : List Nat) (cutoff : α) : List Nat :=
  let mono := monotonic cfg.monoCmp net.energy net.edges net.order excl
  let r := barrierSel g cfg net excl cutoff mono
  -- `monotonic_indices` now *is* r.2 (mutated in place)
  let barrierIndices := r.1.filter (fun i => !(r.2.contains i))
  r.2 ++ barrierIndices

/-- `generate_batch`: `none` when no branch of the `if/elif` chain matches (the code then raises
    UnboundLocalError) -/
def generate (g : Cfg) (cfg : BCfg) (net : Net α) (scheme : String) (excl : List Nat) (cutoff : α) :
    Option (List Nat) :=
  if some scheme == cfg.schemes[0]? then some (lowest net.order excl)
  else if some scheme == cfg.schemes[1]? then
    some (monotonic cfg.monoCmp net.energy net.edges net.order excl)
  else if some scheme == cfg.schemes[2]? then some (barrierSel g cfg net excl cutoff []).1
  else if some scheme == cfg.schemes[3]? then some (topographical g cfg net excl cutoff)
  else none

/-- `select_batch` (indices): absolute cut-off, scheme, optional fill, truncation -/
def selectBatch (g : Cfg) (cfg : BCfg) (net : Net α) (size : Nat) (scheme : String) (fixed : Bool)
    (barrierCutoff : α) (excl : List Nat) : Option (List Nat) :=
  let absCut := barrierCutoff * eRange net
  match generate g cfg net scheme excl absCut with
  | none => none
  | some b0 =>
    let b1 := if fixed && b0.length < size then fill net.order excl b0 else b0
    let b2 := if b1.length > size then b1.take size else b1
    some b2

end sel

/-- `get_batch_positions`: the rows are the coordinates of the listed minima, in order -/
def positions {γ : Type} (coords : Nat → γ) (batch : List Nat) : List γ := batch.map coords

end
end TopSearch.Batch
