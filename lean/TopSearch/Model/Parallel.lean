/-
  TopSearch.Model.Parallel — the parallel branch of `run_connection_attempts`
  (src/topsearch/sampling/exploration.py): `pool.map(self.connection_attempt, total_pairs)` in
  forked workers, then a sequential merge in the parent.  Core Lean only.

  Workers finish in an arbitrary order; each completion carries the index of its task and is
  stored in that slot; the parent reads the slots by index (this is what `Pool.map` promises and
  what the harness validates against the real pool under injected delays).  A failed search is
  `none` and is skipped by the merge.
-/
namespace TopSearch.Parallel

variable {τ β σ : Type}

/-- store one completion `(index, result)` in its slot -/
def store (slots : List (Option β)) (c : Nat × β) : List (Option β) :=
  slots.set c.1 (some c.2)

/-- all completions, in the order the workers happened to finish -/
def collect (n : Nat) (completions : List (Nat × β)) : List (Option β) :=
  completions.foldl store (List.replicate n none)

/-- what the workers produce: task `i` yields `f (tasks[i])`, whoever runs it and whenever -/
def produced (f : τ → β) (tasks : List τ) : List (Nat × β) :=
  (tasks.zipIdx).map (fun (t, i) => (i, f t))

/-- the parent's merge loop: `for i in results: if i is not None: for j in i: merge(j)` -/
def mergeAll (merge : σ → β → σ) (s : σ) (results : List (Option (List β))) : σ :=
  results.foldl (fun s r => match r with
    | none => s
    | some rs => rs.foldl merge s) s

/-- the whole parallel round for one completion order -/
def parallelRound (merge : σ → β → σ) (s : σ) (search : τ → Option (List β)) (tasks : List τ)
    (completionOrder : List (Nat × Option (List β))) : σ :=
  mergeAll merge s ((collect tasks.length completionOrder).map (fun o => o.getD none))

/-- the reference: merge the outcomes one after the other in list order -/
def sequentialMerge (merge : σ → β → σ) (s : σ) (search : τ → Option (List β)) (tasks : List τ) : σ :=
  mergeAll merge s (tasks.map search)

end TopSearch.Parallel
