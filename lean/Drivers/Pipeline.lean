/-
  Driver for C01: replays the stream of gate offers / prunings / resets logged from the real
  pipeline.  Payloads are opaque tokens; the answers of the real match relation are supplied
  (`oracle`), never recomputed.  An operation whose result depends on an answer that was not
  supplied is answered `oracle-miss`.
    oracle <cand:stored:0|1,...>
    min <tok> | ts <ts> <plus> <minus> | fail | reset | prune <k1,k2,..|->
    state
-/
import TopSearch.Model.Pipeline
import TopSearch.Gen.Ktn
import TopSearch.Drv.Util
open TopSearch TopSearch.Drv TopSearch.Ktn TopSearch.Merge TopSearch.Pipeline

abbrev S := Ktn String

structure St where
  table : List ((String × String) × Bool) := []
  net : S := {}

def showState (s : S) : String :=
  let nodes := s.nodes.map (fun nd => s!"{nd.label}:{nd.data}")
  let es := s.edges.map (fun e => (min e.u e.v, max e.u e.v, e.data))
  let es := es.mergeSort (fun a b => a.1 < b.1 || (a.1 == b.1 && (a.2.1 < b.2.1 || (a.2.1 == b.2.1 && a.2.2 ≤ b.2.2))))
  let edges := es.map (fun e => s!"{e.1}:{e.2.1}:{e.2.2}")
  s!"n={s.nMin} ts={s.nTs} nodes={showList id nodes} edges={showList id edges}"

def sameOf (st : St) (dflt : Bool) : String → String → Bool :=
  fun a b => ((st.table.find? (fun e => e.1.1 == a && e.1.2 == b)).map (·.2)).getD dflt

def parseAns? (s : String) : Option ((String × String) × Bool) :=
  match s.splitOn ":" with
  | [a, b, v] => do some ((a, b), (← parseBool? v))
  | _ => none

def apply (st : St) (op : POp String) : St × String :=
  if !(op.valid st.net) then (st, "guard") else
  let a := pstep (sameOf st false) Gen.Ktn.cfg st.net op
  let b := pstep (sameOf st true) Gen.Ktn.cfg st.net op
  if showState a != showState b then (st, "oracle-miss")
  else ({ st with net := a }, showState a)

def stepLine (st : St) (ws : List String) : St × String :=
  match ws with
  | ["oracle", as] =>
    match parseList? parseAns? as with
    | some l => ({ st with table := l ++ st.table }, "ok")
    | none => (st, "bad-op")
  | ["new"] => ({}, "ok")
  | ["min", t] => apply st (.offer (.minimum t))
  | ["ts", t, p, m] => apply st (.offer (.ts ⟨t, p, m⟩))
  | ["fail"] => apply st (.offer .failed)
  | ["reset"] => apply st (.offer .reset)
  | ["prune", ks] =>
    match parseList? parseNat? ks with
    | some ks => apply st (.prune ks)
    | none => (st, "bad-op")
  | ["state"] => (st, showState st.net)
  | _ => (st, "bad-op")

def main : IO Unit := loop stepLine {}
