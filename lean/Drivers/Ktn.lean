/-
  Driver for the network-store model (C02, C13): one operation per line, one canonical
  state line per answer.  Payloads are opaque tokens: the store never looks inside them.
-/
import TopSearch.Model.Ktn
import TopSearch.Gen.Ktn
import TopSearch.Drv.Util
open TopSearch TopSearch.Drv TopSearch.Ktn

abbrev S := Ktn String

def showState (s : S) : String :=
  let nodes := s.nodes.map (fun nd => s!"{nd.label}:{nd.data}")
  let es := s.edges.map (fun e => (min e.u e.v, max e.u e.v, e.data))
  let es := es.mergeSort (fun a b => a.1 < b.1 || (a.1 == b.1 && (a.2.1 < b.2.1 || (a.2.1 == b.2.1 && a.2.2 ≤ b.2.2))))
  let edges := es.map (fun e => s!"{e.1}:{e.2.1}:{e.2.2}")
  let pl := s.pairlist.map (fun p => s!"{p.1}:{p.2}")
  s!"n={s.nMin} ts={s.nTs} nodes={showList id nodes} edges={showList id edges} pl={showList id pl}"

def parseOp? : List String → Option (Op String)
  | ["addmin", t] => some (.addMin t)
  | ["addts", t, u, v] => do some (.addTs t (← parseNat? u) (← parseNat? v))
  | ["rmmin", k] => do some (.removeMin (← parseNat? k))
  | ["rmminima", ks] => do some (.removeMinima (← parseList? parseNat? ks))
  | ["rmts", u, v] => do some (.removeTs (← parseNat? u) (← parseNat? v))
  | ["rmtss", ps] => do some (.removeTss (← parseList? parsePair? ps))
  | ["reset"] => some .reset
  | _ => none

def stepLine (st : Cfg × S) (ws : List String) : (Cfg × S) × String :=
  let (cfg, s) := st
  match ws with
  | ["cfg", "gen"] => ((Gen.Ktn.cfg, s), "ok")
  | ["cfg", a, b] =>
    match parseBool? a, parseBool? b with
    | some a, some b => ((⟨a, b⟩, s), "ok")
    | _, _ => (st, "bad-op")
  | ["new"] => ((cfg, {}), "ok")
  | ["hist", ps] =>
    match parseList? parsePair? ps with
    | some ps => let s' := { s with pairlist := ps }; ((cfg, s'), showState s')
    | none => (st, "bad-op")
  | _ =>
    match parseOp? ws with
    | none => (st, "bad-op")
    | some op =>
      if op.valid s then
        let s' := step cfg s op
        ((cfg, s'), showState s')
      else (st, "guard")

def main : IO Unit := loop stepLine (Gen.Ktn.cfg, ({} : S))
