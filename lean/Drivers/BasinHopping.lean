/-
  Driver for the basin-hopping model (C07, C08).  One line = one operation, numbers are exact
  rationals `n/d`, coordinate vectors are comma separated.

    cfg gen | cfg model | cfg copies a b c d e      kernels (Gen = read from the source)
    same sq <dc²> <ec> | same never | same always   the gate's match relation
    new                                             empty network, no run in progress
    addmin <pos> <e>                                a minimum already in the network (before init)
    init <atomic> <minPos> <minE> <warn> <gated>    prepare_initial_coordinates + first save
    step <perturbed> <left> <minPos> <minE> <warn> <relRed> <bondsOk> <gated> <boltz> <u>
    metro <e1> <e2> <boltz> <u>                     the Metropolis kernel alone

  Answers: the decision taken, the position seen by `perturb` on entry, and the state after
  the step (walker, markov value / alias flag, energies, archive in insertion order).
-/
import TopSearch.Model.BasinHopping
import TopSearch.Gen.BasinHopping
import TopSearch.Drv.Util
open TopSearch TopSearch.Drv TopSearch.BH

inductive SameSpec where
  | sq (dc2 ec : Rat)
  | never
  | always

def absR (x : Rat) : Rat := if x < 0 then -x else x

def sumSq : List Rat → List Rat → Rat
  | a :: as, b :: bs => (a - b) * (a - b) + sumSq as bs
  | _, _ => 0

def SameSpec.rel : SameSpec → Pt Rat → Pt Rat → Bool
  | .sq dc2 ec, c, d =>
      c.pos.length == d.pos.length && decide (sumSq c.pos d.pos < dc2) && decide (absR (c.e - d.e) < ec)
  | .never, _, _ => false
  | .always, _, _ => true

structure D where
  kern : Kern Rat
  same : SameSpec
  atomic : Bool
  net : Ktn (Pt Rat)
  st : Option (State Rat)

def showVec (v : List Rat) : String := showList showRat v

def showNet (k : Ktn (Pt Rat)) : String :=
  let nodes := k.nodes.map (fun nd => s!"{nd.label}:{showVec nd.data.pos}:{showRat nd.data.e}")
  s!"{k.nMin};{k.nTs};{if nodes.isEmpty then "-" else "|".intercalate nodes}"

def showState (s : State Rat) : String :=
  let al := match s.markov with | .alias => "1" | .val _ => "0"
  s!"walker={showVec s.walker} markov={showVec s.markovVal} alias={al} markovE={showRat s.markovE} " ++
  s!"energy={showRat s.energy} net={showNet s.net}"

def showDecision : Decision → String
  | .fail => "fail" | .bonds => "bonds" | .accept => "accept" | .reject => "reject"

def parseVec? (s : String) : Option (List Rat) := parseList? parseRat? s

def stepLine (d : D) (ws : List String) : D × String :=
  match ws with
  | ["cfg", "gen"] => ({ d with kern := Gen.BasinHopping.kern }, "ok")
  | ["cfg", "model"] => ({ d with kern := Kern.model }, "ok")
  | ["cfg", "copies", a, b, c, e, f] =>
    match parseBool? a, parseBool? b, parseBool? c, parseBool? e, parseBool? f with
    | some a, some b, some c, some e, some f =>
        ({ d with kern := { d.kern with copy := ⟨a, b, c, e, f⟩ } }, "ok")
    | _, _, _, _, _ => (d, "bad-op")
  | ["same", "never"] => ({ d with same := .never }, "ok")
  | ["same", "always"] => ({ d with same := .always }, "ok")
  | ["same", "sq", a, b] =>
    match parseRat? a, parseRat? b with
    | some a, some b => ({ d with same := .sq a b }, "ok")
    | _, _ => (d, "bad-op")
  | ["new"] => ({ d with net := {}, st := none }, "ok")
  | ["addmin", p, e] =>
    match d.st, parseVec? p, parseRat? e with
    | none, some p, some e => let n := d.net.addMin ⟨p, e⟩; ({ d with net := n }, showNet n)
    | some _, _, _ => (d, "guard")
    | _, _, _ => (d, "bad-op")
  | ["metro", a, b, c, e] =>
    match parseRat? a, parseRat? b, parseRat? c, parseRat? e with
    | some e1, some e2, some bz, some u => (d, showBool (d.kern.accept e1 e2 bz u))
    | _, _, _, _ => (d, "bad-op")
  | ["init", atm, p, e, w, g] =>
    match parseBool? atm, parseVec? p, parseRat? e, parseInt? w, parseVec? g with
    | some atm, some p, some e, some w, some g =>
        let s := init d.kern d.same.rel d.net ⟨p, e, w, g⟩
        ({ d with atomic := atm, st := some s, net := s.net }, showState s)
    | _, _, _, _, _ => (d, "bad-op")
  | ["step", pb, lf, p, e, w, rr, bo, g, bz, u] =>
    match d.st with
    | none => (d, "guard")
    | some s =>
      match parseVec? pb, parseVec? lf, parseVec? p, parseRat? e, parseInt? w, parseBool? rr,
            parseBool? bo, parseVec? g, parseRat? bz, parseRat? u with
      | some pb, some lf, some p, some e, some w, some rr, some bo, some g, some bz, some u =>
          let i : StepIn Rat := ⟨pb, lf, p, e, w, rr, bo, g, bz, u⟩
          let dec := decision d.kern d.atomic s i
          let s' := step d.kern d.same.rel d.atomic s i
          ({ d with st := some s', net := s'.net },
           s!"dec={showDecision dec} entry={showVec s.walker} " ++ showState s')
      | _, _, _, _, _, _, _, _, _, _ => (d, "bad-op")
  | _ => (d, "bad-op")

def main : IO Unit :=
  loop stepLine { kern := Gen.BasinHopping.kern, same := .never, atomic := false, net := {}, st := none }
