/-
  Driver for the moves / box-predicate model (C20).  Numbers are exact rationals `n/d`; lists are
  comma separated (`-` = empty).  One operation per line:

    kern gen|ref                                 regenerated kernels (default) or the hand-written ones
    check  <xs> <los> <his>                      check_bounds            -> mask (0/1 list)
    at     <xs> <los> <his>                      at_bounds               -> 0/1
    all    <xs> <los> <his>                      all_bounds              -> 0/1
    active <xs> <los> <his>                      active_bounds           -> mask|mask
    clip   <xs> <los> <his>                      move_to_bounds          -> position
    std <prop> <m> <us> <xs> <los> <his>         StandardPerturbation.perturb with draws `us`
    atomic <m> <idx> <draws> <pos>               AtomicPerturbation.perturb: `idx` = positions drawn
                                                 by random.sample inside its population, `draws` =
                                                 the rows of np.random.rand(max_atoms,3), flattened
    angle <u> <m>                                MolecularPerturbation's random angle
    dihedral <c> <s> <Q> <atom1> <moved> <pos>   rotate_dihedral (Q = alignment rotation, row major)
    rotangle <R> <atom2> <moved> <pos>           rotate_angle (R = scipy's rotation matrix)
    bondlen <len> <atom1> <atom2> <moved> <pos>  change_bond_length
  Wrong sizes / indices outside the population are answered `guard`, unparsable lines `bad-op`.
-/
import TopSearch.Model.Moves
import TopSearch.Gen.Moves
import TopSearch.Drv.Util
open TopSearch TopSearch.Drv TopSearch.Moves

abbrev Q := Rat

def zip3 (xs los his : List Q) : Option (List (Coord Q)) :=
  if xs.length == los.length && xs.length == his.length then
    some ((xs.zip (los.zip his)).map fun (x, lo, hi) => ⟨x, lo, hi⟩)
  else none

def rats? (s : String) : Option (List Q) := parseList? parseRat? s
def showRats (l : List Q) : String := showList showRat l
def showMask (l : List Bool) : String := showList showBool l

def v3s? : List Q → Option (List (V3 Q))
  | [] => some []
  | x :: y :: z :: t => (v3s? t).map (⟨x, y, z⟩ :: ·)
  | _ => none

def v3? : List Q → Option (V3 Q)
  | [x, y, z] => some ⟨x, y, z⟩
  | _ => none

def m3? : List Q → Option (M3 Q)
  | [a, b, c, d, e, f, g, h, i] => some ⟨a, b, c, d, e, f, g, h, i⟩
  | _ => none

def flat (l : List (V3 Q)) : List Q := l.flatMap fun v => [v.x, v.y, v.z]

def triples? : List Q → Option (List (Q × Q × Q))
  | [] => some []
  | x :: y :: z :: t => (triples? t).map ((x, y, z) :: ·)
  | _ => none

def boxOp (gen : Bool) (op : String) (cs : List (Coord Q)) : Option String :=
  let mask := cs.map fun c => if gen then Gen.Moves.checkBounds1 c.x c.lo c.hi else checkBounds1 c.x c.lo c.hi
  match op with
  | "check" => some (showMask mask)
  | "at" => some (showBool (if gen then Gen.Moves.atBounds mask else atBounds cs))
  | "all" => some (showBool (if gen then Gen.Moves.allBounds mask else allBounds cs))
  | "active" =>
    let ab := cs.map fun c => if gen then Gen.Moves.activeBounds1 c.x c.lo c.hi else activeBounds1 c.x c.lo c.hi
    some (showMask (ab.map (·.1)) ++ "|" ++ showMask (ab.map (·.2)))
  | "clip" => some (showRats (cs.map fun c => if gen then Gen.Moves.clip1 c.x c.lo c.hi else clip1 c.x c.lo c.hi))
  | _ => none

/-- StandardPerturbation.perturb assembled from the regenerated kernels -/
def genStd (prop : Bool) (m u : Q) (c : Coord Q) : Q :=
  let s := if prop then Gen.Moves.stepSizeProp m c.lo c.hi else m
  let p := Gen.Moves.stdPerturbation u s
  let y := if Gen.Moves.stdAdds then c.x + p else c.x - p
  if Gen.Moves.stdClips then Gen.Moves.clip1 y c.lo c.hi else y

def genAtomic (m : Q) : List Nat → List (Q × Q × Q) → List Q → List Q
  | a :: as, (u0, u1, u2) :: us, pos =>
    genAtomic m as us (addAtom pos a (Gen.Moves.atomicPerturbation u0 m)
      (Gen.Moves.atomicPerturbation u1 m) (Gen.Moves.atomicPerturbation u2 m))
  | _, _, pos => pos

def stepLine (gen : Bool) (ws : List String) : Bool × String :=
  match ws with
  | ["kern", "gen"] => (true, "ok")
  | ["kern", "ref"] => (false, "ok")
  | [op, xs, los, his] =>
    match rats? xs, rats? los, rats? his with
    | some xs, some los, some his =>
      match zip3 xs los his with
      | some cs => (gen, (boxOp gen op cs).getD "bad-op")
      | none => (gen, "guard")
    | _, _, _ => (gen, "bad-op")
  | ["std", prop, m, us, xs, los, his] =>
    match parseBool? prop, parseRat? m, rats? us, rats? xs, rats? los, rats? his with
    | some prop, some m, some us, some xs, some los, some his =>
      match zip3 xs los his with
      | some cs =>
        if us.length != cs.length then (gen, "guard")
        else if gen then (gen, showRats (List.zipWith (genStd prop m) us cs))
        else (gen, showRats (stdPerturb prop m us cs))
      | none => (gen, "guard")
    | _, _, _, _, _, _ => (gen, "bad-op")
  | ["atomic", m, idx, draws, pos] =>
    match parseRat? m, parseList? parseNat? idx, (rats? draws).bind triples?, rats? pos with
    | some m, some idx, some draws, some pos =>
      let lo := if gen then Gen.Moves.sampleLo else 1
      let hi := if gen then Gen.Moves.sampleHi pos.length else pos.length / 3
      match sampleAtoms lo hi idx with
      | some atoms =>
        if draws.length != idx.length || pos.length % 3 != 0 || !(atoms.all (· < pos.length / 3)) then (gen, "guard")
        else
          (gen, showList toString atoms ++ " " ++
            showRats (if gen then genAtomic m atoms draws pos else atomicPerturb m atoms draws pos))
      | none => (gen, "guard")
    | _, _, _, _ => (gen, "bad-op")
  | ["angle", u, m] =>
    match parseRat? u, parseRat? m with
    | some u, some m => (gen, showRat (if gen then Gen.Moves.molecularAngle u m else molecularAngle u m))
    | _, _ => (gen, "bad-op")
  | ["dihedral", c, s, q, a1, moved, pos] =>
    match parseRat? c, parseRat? s, (rats? q).bind m3?, (rats? a1).bind v3?, parseList? parseNat? moved,
        (rats? pos).bind v3s? with
    | some c, some s, some q, some a1, some moved, some pos =>
      let f : Bool → V3 Q → V3 Q :=
        if gen then rotateDihedralWith q (Gen.Moves.undo q) (Gen.Moves.rotX c s) a1
        else rotateDihedral1 q c s a1
      (gen, showRats (flat (applyMove f moved pos)))
    | _, _, _, _, _, _ => (gen, "bad-op")
  | ["rotangle", r, a2, moved, pos] =>
    match (rats? r).bind m3?, (rats? a2).bind v3?, parseList? parseNat? moved, (rats? pos).bind v3s? with
    | some r, some a2, some moved, some pos =>
      (gen, showRats (flat (applyMove (rotateAngle1 r a2) moved pos)))
    | _, _, _, _ => (gen, "bad-op")
  | ["bondlen", len, a1, a2, moved, pos] =>
    match parseRat? len, (rats? a1).bind v3?, (rats? a2).bind v3?, parseList? parseNat? moved,
        (rats? pos).bind v3s? with
    | some len, some a1, some a2, some moved, some pos =>
      (gen, showRats (flat (applyMove (changeBondLength1 len a1 a2) moved pos)))
    | _, _, _, _, _ => (gen, "bad-op")
  | _ => (gen, "bad-op")

def main : IO Unit := loop stepLine true
