/-
  Driver for the nudged-elastic-band model (C09): one operation per line, one canonical answer
  line per operation.  Numbers are exact rationals `n/d`; vectors `a,b,c`; matrices are rows
  separated by `;`; a box is `lo:hi,lo:hi`.  `sqrt` is exact on squares of rationals and a
  2^-120-accurate rational otherwise (the harness compares such results with a tolerance);
  `int()` truncates towards zero.  The spring literal and the cut-off come from the regenerated
  kernels (`Gen.Neb`).
-/
import TopSearch.Model.Neb
import TopSearch.Gen.Neb
import TopSearch.Drv.Util
open TopSearch TopSearch.Drv TopSearch.Neb

abbrev Q := Rat

def sqrtQ (q : Q) : Q :=
  if q ≤ 0 then 0 else
  let n := q.num.toNat
  let d := q.den
  let sn := Nat.sqrt n
  let sd := Nat.sqrt d
  if sn * sn = n ∧ sd * sd = d then (sn : Q) / (sd : Q)
  else ((Nat.sqrt (n * d * 4 ^ 120) : Nat) : Q) / ((d * 2 ^ 120 : Nat) : Q)

def truncQ (q : Q) : Int := Int.tdiv q.num (q.den : Int)

def cutQ : Q := (Gen.Neb.cutNum : Q) / (Gen.Neb.cutDen : Q)

def parseVec? (s : String) : Option (List Q) := parseList? parseRat? s

def parseMat? (s : String) : Option (List (List Q)) :=
  if s = "-" then some [] else (s.splitOn ";").mapM parseVec?

def parseBox? (s : String) : Option (List (Q × Q)) :=
  parseList? (fun t => match t.splitOn ":" with
    | [a, b] => do some ((← parseRat? a), (← parseRat? b))
    | _ => none) s

def showVec (v : List Q) : String := showList showRat v
def showMat (m : List (List Q)) : String :=
  if m.isEmpty then "-" else ";".intercalate (m.map showVec)
def showBox (b : List (Q × Q)) : String := showList (fun p => s!"{showRat p.1}:{showRat p.2}") b
def showOpt {β} (f : β → String) : Option β → String
  | none => "none"
  | some x => f x

def showObj (o : Obj Q) : String :=
  s!"dens={showRat o.imageDensity} n={showOpt toString o.nImages} nb={showOpt (fun b => toString b.length) o.bandBounds} ks={showOpt showVec o.forceConstants} count={o.nebCount}"

def rect (m : List (List Q)) (r d : Nat) : Bool := m.length == r && m.all (·.length == d)

def stepLine (o : Obj Q) (ws : List String) : Obj Q × String :=
  match ws with
  | ["new", k, dens, mx] =>
    match parseRat? k, parseRat? dens, parseInt? mx with
    | some k, some dens, some mx => (Obj.fresh k dens mx, "ok")
    | _, _, _ => (o, "bad-op")
  | ["state"] => (o, showObj o)
  | ["interp", a, x1, x2, box] =>
    match parseInt? a, parseVec? x1, parseVec? x2, parseBox? box with
    | some a, some x1, some x2, some box =>
      if o.maxImages < 10 ∨ x1.length ≠ x2.length ∨ x1.length = 0 ∨ box.length ≠ x1.length then (o, "guard")
      else
        let (o', band) := o.initialInterpolation truncQ sqrtQ x1 x2 box a
        (o', s!"n={showOpt toString o'.nImages} band={showMat band} bounds={showOpt showBox o'.bandBounds} dens={showRat o'.imageDensity}")
    | _, _, _, _ => (o, "bad-op")
  | ["finish", band, es] =>
    match parseMat? band, parseVec? es with
    | some band, some es =>
      match o.nImages with
      | none => (o, "guard")
      | some n =>
        if band.length ≠ n ∨ es.length ≠ n then (o, "guard")
        else
          let (o', c, p) := o.finish band es
          (o', s!"cands={showList toString c} pos={showMat p} count={o'.nebCount}")
    | _, _ => (o, "bad-op")
  | ["cands", n, band, es] =>
    match parseNat? n, parseMat? band, parseVec? es with
    | some n, some band, some es =>
      if band.length ≠ es.length ∨ es.length < n then (o, "guard")
      else
        let (c, p) := findTsCandidates n band es
        (o, s!"cands={showList toString c} pos={showMat p}")
    | _, _, _ => (o, "bad-op")
  | ["tangents", n, band, es] =>
    match parseNat? n, parseMat? band, parseVec? es with
    | some n, some band, some es =>
      let d := (band.getD 0 []).length
      if n < 2 ∨ d = 0 ∨ !(rect band n d) ∨ es.length ≠ n then (o, "guard")
      else (o, showMat (tangents sqrtQ n band es))
    | _, _, _ => (o, "bad-op")
  | ["grad", n, ks, band, es, gs] =>
    match parseNat? n, parseVec? ks, parseMat? band, parseVec? es, parseMat? gs with
    | some n, some ks, some band, some es, some gs =>
      let d := (band.getD 0 []).length
      if n < 2 ∨ d = 0 ∨ !(rect band n d) ∨ !(rect gs n d) ∨ es.length ≠ n ∨ ks.length + 1 ≠ n then (o, "guard")
      else
        let (f, g) := bandGradient Gen.Neb.springCoef sqrtQ cutQ n ks band (es.zip gs)
        (o, s!"f={showRat f} g={showMat g}")
    | _, _, _, _, _ => (o, "bad-op")
  | ["perp", v, t] =>
    match parseVec? v, parseVec? t with
    | some v, some t =>
      if v.length ≠ t.length ∨ v.length = 0 then (o, "guard") else (o, showVec (perp cutQ v t))
    | _, _ => (o, "bad-op")
  | _ => (o, "bad-op")

def main : IO Unit := loop stepLine (Obj.fresh (1 : Q) (1 : Q) 10)
