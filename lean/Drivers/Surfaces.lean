/-
  Driver for C16: evaluates the *generated* expressions (Gen/Surfaces.lean) at exact rationals
  and runs the classifier model.
    eval <name> <index> <v0,v1,...>     -> rational value (named functions are not interpreted:
                                            expressions containing them answer `has-fn`)
    deriv <name> <var> <v0,...>          -> value of the symbolic derivative d/dx_var
    valid <min|ts> <atBounds> <atomistic> <e0,e1,...>   -> 1 | 0 | index-error
    ljn <N> <eps> <sigma> <x0,...,x(3N-1)>  -> energy|g0,g1,...|fg-agree   (loop model Model/LjN.lean, any N)
-/
import TopSearch.Py.Expr
import TopSearch.Model.Surfaces
import TopSearch.Gen.Surfaces
import TopSearch.Model.LjN
import TopSearch.Drv.Util
open TopSearch TopSearch.Drv TopSearch.Py TopSearch.Surfaces TopSearch.Gen.Surfaces

def table : List (String × List E) :=
  [("camelF", [camelF]), ("camelGrad", camelGrad), ("camelHess", camelHess),
   ("ljF2", [ljF2]), ("ljGrad2", ljGrad2), ("ljFG2", ljFG2),
   ("ljF3", [ljF3]), ("ljGrad3", ljGrad3), ("ljFG3", ljFG3),
   ("ljF4", [ljF4]), ("ljGrad4", ljGrad4), ("ljFG4", ljFG4),
   ("quadF3", [quadF3]), ("quadFDGrad3", quadFDGrad3), ("quadFDHess2", quadFDHess2),
   ("guptaF3", [guptaF3])]

def lookup (name : String) (i : Nat) : Option E := do
  let l ← (table.find? (·.1 == name)).map (·.2)
  l[i]?

def evalQ (e : E) (vals : List Rat) : String :=
  if e.hasFn then "has-fn"
  else showRat (E.eval (α := Rat) (fun _ x => x) (envOf vals) e)

def stepLine (_ : Unit) (ws : List String) : Unit × String :=
  match ws with
  | ["eval", name, i, vs] =>
    match parseNat? i, parseList? parseRat? vs with
    | some k, some vals =>
      match lookup name k with
      | none => ((), "bad-op")
      | some e => ((), evalQ e vals)
    | _, _ => ((), "bad-op")
  | ["deriv", name, i, var, vs] =>
    match parseNat? i, parseNat? var, parseList? parseRat? vs with
    | some k, some v, some vals =>
      match lookup name k with
      | none => ((), "bad-op")
      | some e => ((), evalQ (e.d v) vals)
    | _, _, _ => ((), "bad-op")
  | ["ljn", n, eps, sig, vs] =>
    match parseNat? n, parseRat? eps, parseRat? sig, parseList? parseRat? vs with
    | some N, some ε, some σ, some vals =>
      if vals.length != 3 * N then ((), "bad-op")
      else
        let x := envOf vals
        let e := LjN.energyLoop N ε σ x
        let g := LjN.gradLoop N ε σ x
        let fg := LjN.fgLoop N ε σ x
        ((), showRat e ++ "|" ++ ",".intercalate (g.map showRat) ++ "|" ++
             (if fg.1 == e && fg.2 == g then "1" else "0"))
    | _, _, _, _ => ((), "bad-op")
  | ["valid", kind, ab, atm, es] =>
    match parseBool? ab, parseBool? atm, parseList? parseRat? es with
    | some ab, some atm, some eigs =>
      let r := if kind == "min" then checkValid ab atm validMinAtom validMinStd eigs
               else if kind == "ts" then checkValid ab atm validTsAtom validTsStd eigs else none
      if kind != "min" && kind != "ts" then ((), "bad-op")
      else match r with
        | some true => ((), "1")
        | some false => ((), "0")
        | none => ((), "index-error")
    | _, _, _ => ((), "bad-op")
  | _ => ((), "bad-op")

def main : IO Unit := loop stepLine ()
