/-
  Driver for the gate / merge model (C03, C05): one operation per line, one canonical answer
  line per operation.  Coordinates and energies travel as exact rationals `n/d`; payloads are
  registered once (`pt`) and referred to by token afterwards.

    mode abs <dc> <ec> | mode prop <dc> <ec> <los> <his> | mode oracle
    oracle <cand:stored:0|1,...>        answers of the real match relation (oracle mode)
    pt <tok> <energy> <c1,c2,...>       register a payload
    new                                 fresh main network          onew   fresh other network
    addmin <tok> | addts <tok> <u> <v> | hist <pairs>      raw store operations on the main network
    omin <tok>   | ots <tok> <u> <v>   | ohist <pairs>     the same on the other network
    same <a> <b>                        test_same(candidate a, stored b)
    isnewmin <tok> | isnewts <tok>
    min <tok> | ts <ts> <plus> <minus> | fail              gate operations
    addnet <order u:v,...>              add_network(other) with the other network's edge order
    script <u>:<v> <outcomes>           what the searches of pair (u,v) return: `t+p+m` or `x`
    round serial|parallel <pairs>       run_connection_attempts
    reconvmin <toks> | reconvland <toks> <outcomes>

  Malformed input is answered `bad-op`, input outside the guards `guard`; in oracle mode an
  operation whose result depends on an answer that was not supplied is answered `oracle-miss`.
-/
import TopSearch.Model.Merge
import TopSearch.Gen.Ktn
import TopSearch.Gen.Similarity
import TopSearch.Drv.Util
open TopSearch TopSearch.Drv TopSearch.Ktn TopSearch.Merge

structure P where
  tok : String
  coords : List Rat
  energy : Rat

inductive Sel where
  | std (m : Mode Rat)
  | oracle

structure St where
  sel : Sel := .std (.abs 0 0)
  table : List ((String × String) × Bool) := []
  pts : List (String × P) := []
  dim : Option Nat := none
  net : Ktn P := {}
  other : Ktn P := {}
  script : List ((Nat × Nat) × List (Outcome P)) := []

abbrev S := Ktn P

def showState (s : S) : String :=
  let nodes := s.nodes.map (fun nd => s!"{nd.label}:{nd.data.tok}")
  let es := s.edges.map (fun e => (min e.u e.v, max e.u e.v, e.data.tok))
  let es := es.mergeSort (fun a b => a.1 < b.1 || (a.1 == b.1 && (a.2.1 < b.2.1 || (a.2.1 == b.2.1 && a.2.2 ≤ b.2.2))))
  let edges := es.map (fun e => s!"{e.1}:{e.2.1}:{e.2.2}")
  let pl := s.pairlist.map (fun p => s!"{p.1}:{p.2}")
  s!"n={s.nMin} ts={s.nTs} nodes={showList id nodes} edges={showList id edges} pl={showList id pl}"

def sameOf (st : St) (dflt : Bool) : P → P → Bool :=
  match st.sel with
  | .std m => fun a b => testSame m ⟨a.coords, a.energy⟩ ⟨b.coords, b.energy⟩
  | .oracle => fun a b => ((st.table.find? (fun e => e.1.1 == a.tok && e.1.2 == b.tok)).map (·.2)).getD dflt

def isOracle (st : St) : Bool := match st.sel with | .oracle => true | _ => false

def lookupPt (st : St) (t : String) : Option P := (st.pts.find? (·.1 == t)).map (·.2)

def parseOutcome (st : St) (s : String) : Option (Outcome P) :=
  if s = "x" then some none
  else match s.splitOn "+" with
    | [t, p, m] => do some (some ⟨← lookupPt st t, ← lookupPt st p, ← lookupPt st m⟩)
    | _ => none

def parseTriple? (s : String) : Option ((String × String) × Bool) :=
  match s.splitOn ":" with
  | [a, b, v] => do some ((a, b), ← parseBool? v)
  | _ => none

def cCount : Bool := Gen.Ktn.cfg.addTsCountsOnlyNew

/-- run a network-valued operation under both defaults of the oracle; they must agree -/
def answer (st : St) (f : (P → P → Bool) → Option S) (store : St → S → St) : St × String :=
  match f (sameOf st false) with
  | none => (st, "guard")
  | some s1 =>
    if isOracle st then
      match f (sameOf st true) with
      | none => (st, "oracle-miss")
      | some s2 =>
        if showState s1 == showState s2 then (store st s1, showState s1) else (st, "oracle-miss")
    else (store st s1, showState s1)

def setNet (st : St) (s : S) : St := { st with net := s }
def setOther (st : St) (s : S) : St := { st with other := s }

def pairsOk (s : S) (ps : List (Nat × Nat)) : Bool := ps.all (fun p => p.1 < s.nMin && p.2 < s.nMin)

def stepLine (st : St) (ws : List String) : St × String :=
  match ws with
  | ["mode", "abs", dc, ec] =>
    match parseRat? dc, parseRat? ec with
    | some dc, some ec => ({ st with sel := .std (.abs dc ec), dim := none, pts := [] }, "ok")
    | _, _ => (st, "bad-op")
  | ["mode", "prop", dc, ec, los, his] =>
    match parseRat? dc, parseRat? ec, parseList? parseRat? los, parseList? parseRat? his with
    | some dc, some ec, some los, some his =>
      if los.length == his.length then
        ({ st with sel := .std (.prop dc ec los his), dim := some los.length, pts := [] }, "ok")
      else (st, "guard")
    | _, _, _, _ => (st, "bad-op")
  | ["mode", "oracle"] => ({ st with sel := .oracle, table := [], dim := none, pts := [] }, "ok")
  | ["oracle", es] =>
    match parseList? parseTriple? es with
    | some es => ({ st with table := es ++ st.table }, "ok")
    | none => (st, "bad-op")
  | ["pt", t, e, cs] =>
    match parseRat? e, parseList? parseRat? cs with
    | some e, some cs =>
      if (match st.dim with | some d => cs.length == d | none => true) then
        ({ st with pts := (t, ⟨t, cs, e⟩) :: st.pts, dim := some cs.length }, "ok")
      else (st, "guard")
    | _, _ => (st, "bad-op")
  | ["new"] => ({ st with net := {} }, "ok")
  | ["onew"] => ({ st with other := {} }, "ok")
  | ["addmin", t] =>
    match lookupPt st t with
    | some p => let s := st.net.addMin p; (setNet st s, showState s)
    | none => (st, "bad-op")
  | ["omin", t] =>
    match lookupPt st t with
    | some p => let s := st.other.addMin p; (setOther st s, showState s)
    | none => (st, "bad-op")
  | ["addts", t, u, v] =>
    match lookupPt st t, parseNat? u, parseNat? v with
    | some p, some u, some v =>
      if u < st.net.nMin && v < st.net.nMin then
        let s := st.net.addTs cCount p u v; (setNet st s, showState s)
      else (st, "guard")
    | _, _, _ => (st, "bad-op")
  | ["ots", t, u, v] =>
    match lookupPt st t, parseNat? u, parseNat? v with
    | some p, some u, some v =>
      if u < st.other.nMin && v < st.other.nMin then
        let s := st.other.addTs cCount p u v; (setOther st s, showState s)
      else (st, "guard")
    | _, _, _ => (st, "bad-op")
  | ["hist", ps] =>
    match parseList? parsePair? ps with
    | some ps => let s := { st.net with pairlist := ps }; (setNet st s, showState s)
    | none => (st, "bad-op")
  | ["ohist", ps] =>
    match parseList? parsePair? ps with
    | some ps =>
      if pairsOk st.other ps then
        let s := { st.other with pairlist := ps }; (setOther st s, showState s)
      else (st, "guard")
    | none => (st, "bad-op")
  | ["same", a, b] =>
    match lookupPt st a, lookupPt st b with
    | some a, some b =>
      let r1 := sameOf st false a b
      if isOracle st && r1 != sameOf st true a b then (st, "oracle-miss") else (st, showBool r1)
    | _, _ => (st, "bad-op")
  | ["isnewmin", t] =>
    match lookupPt st t with
    | some p =>
      let r1 := isNewMinimum (sameOf st false) st.net p
      if isOracle st && r1 != isNewMinimum (sameOf st true) st.net p then (st, "oracle-miss")
      else (st, match r1 with | some i => toString i | none => "none")
    | none => (st, "bad-op")
  | ["isnewts", t] =>
    match lookupPt st t with
    | some p =>
      let r1 := isNewTs (sameOf st false) st.net p
      if isOracle st && r1 != isNewTs (sameOf st true) st.net p then (st, "oracle-miss")
      else (st, showBool r1)
    | none => (st, "bad-op")
  | ["min", t] =>
    match lookupPt st t with
    | some p => answer st (fun same => some (testNewMinimum same st.net p)) setNet
    | none => (st, "bad-op")
  | ["ts", t, p, m] =>
    match lookupPt st t, lookupPt st p, lookupPt st m with
    | some t, some p, some m =>
      answer st (fun same => some (testNewTs same cCount st.net ⟨t, p, m⟩)) setNet
    | _, _, _ => (st, "bad-op")
  | ["fail"] => answer st (fun same => some (offer same cCount st.net .failed)) setNet
  | ["addnet", order] =>
    match parseList? parsePair? order with
    | some order => answer st (fun same => addNetwork same cCount st.net st.other order) setNet
    | none => (st, "bad-op")
  | ["script", pr, outs] =>
    match parsePair? pr, parseList? (parseOutcome st) outs with
    | some pr, some outs => ({ st with script := (pr, outs) :: st.script }, "ok")
    | _, _ => (st, "bad-op")
  | ["scriptclear"] => ({ st with script := [] }, "ok")
  | ["round", kind, ps] =>
    match parseList? parsePair? ps with
    | some ps =>
      if !(pairsOk st.net ps) then (st, "guard")
      else
        match ps.mapM (fun p => (st.script.find? (·.1 == p)).map (fun e => (p, e.2))) with
        | none => (st, "guard")
        | some tasks =>
          if kind = "serial" then
            answer st (fun same => some (roundSerial checkPair same cCount st.net tasks)) setNet
          else if kind = "parallel" then
            answer st (fun same => some (roundParallel checkPair same cCount st.net tasks)) setNet
          else (st, "bad-op")
    | none => (st, "bad-op")
  | ["reconvmin", ts] =>
    match parseList? (lookupPt st) ts with
    | some mins => answer st (fun same => some (reconvergeMinima same st.net mins)) setNet
    | none => (st, "bad-op")
  | ["reconvland", ts, outs] =>
    match parseList? (lookupPt st) ts, parseList? (parseOutcome st) outs with
    | some mins, some outs =>
      answer st (fun same => reconvergeLandscape true same cCount st.net mins outs) setNet
    | _, _ => (st, "bad-op")
  | _ => (st, "bad-op")

def main : IO Unit := loop stepLine ({} : St)
