/-
  Driver for the L-BFGS wrapper model (C10).
    record model | record gen     the call record, one `kw=value` token per keyword
    inbox <bounds> <x>            bounds = l:u,l:u,…  with `none` for an open side
    projgrad <bounds> <x> <g>     scipy's projected gradient and its sup-norm, exactly (Rat)
-/
import TopSearch.Model.Lbfgs
import TopSearch.Gen.Lbfgs
import TopSearch.Drv.Util
open TopSearch TopSearch.Drv TopSearch.Lbfgs

def showParam : Param → String
  | .funcGrad => "func_grad" | .initialPosition => "initial_position" | .bounds => "bounds"
  | .convCrit => "conv_crit" | .historySize => "history_size" | .nSteps => "n_steps"
  | .args => "args"

def showKw : Kw → String
  | .func => "func" | .x0 => "x0" | .fprime => "fprime" | .args => "args"
  | .approxGrad => "approx_grad" | .bounds => "bounds" | .m => "m" | .factr => "factr"
  | .pgtol => "pgtol" | .epsilon => "epsilon" | .iprint => "iprint" | .maxfun => "maxfun"
  | .maxiter => "maxiter" | .disp => "disp" | .callback => "callback" | .maxls => "maxls"
  | .unknown => "?"

def showVal : Val → String
  | .param p => s!"param:{showParam p}"
  | .lit n d => s!"lit:{n}/{d}"
  | .other => "other"

def showRet : Ret → String
  | .calleeResult i => s!"r{i}"
  | .other => "other"

def showRecord (c : CallRecord) : String :=
  s!"callee={showBool c.calleeIsFminLbfgsb} argsdefault={showBool c.argsNoneBecomesEmpty} " ++
  s!"single={showBool c.singleCall} returns={showList showRet c.returns} " ++
  " ".intercalate (c.kwargs.map (fun kv => s!"{showKw kv.1}={showVal kv.2}"))

def parseSide? (s : String) : Option (Option Rat) :=
  if s = "none" then some none else (parseRat? s).map some

def parseBound? (s : String) : Option (Bound Rat) :=
  match s.splitOn ":" with
  | [a, b] => do some ((← parseSide? a), (← parseSide? b))
  | _ => none

def stepLine (st : Unit) (ws : List String) : Unit × String :=
  match ws with
  | ["record", "model"] => (st, showRecord expectedCall)
  | ["record", "gen"] => (st, showRecord Gen.Lbfgs.call)
  | ["inbox", bs, xs] =>
    match parseList? parseBound? bs, parseList? parseRat? xs with
    | some bs, some xs => (st, showBool (decide (inBox bs xs)))
    | _, _ => (st, "bad-op")
  | ["projgrad", bs, xs, gs] =>
    match parseList? parseBound? bs, parseList? parseRat? xs, parseList? parseRat? gs with
    | some bs, some xs, some gs =>
      if bs.length == xs.length && xs.length == gs.length then
        let p := projGrad bs xs gs
        (st, s!"pg={showList showRat p} sup={showRat (supNorm p)}")
      else (st, "guard")
    | _, _, _ => (st, "bad-op")
  | _ => (st, "bad-op")

def main : IO Unit := loop stepLine ()
