/-
  Driver for C11 (alignment logic).  Candidates are identified by their position in the order
  the code consults them.
    opt <crit> <exact> <r1,r2,..|->                      -> index of the returned candidate
    opti <crit> <exact> <r..> <exactInv> <ri..>          -> same with inversion allowed
    tes <crit> <sentinel> <d1,d2,..|->                   -> index (0 = sentinel, k = k-th alignment)
    asm <n> <g1;g2;..> <c1;c2;..>   (groups/cols as a:b:c) -> assembled permutation of atoms 0..n-1
-/
import TopSearch.Model.Align
import TopSearch.Gen.Align
import TopSearch.Drv.Util
open TopSearch TopSearch.Drv TopSearch.Align

def tag (ds : List Rat) (start : Nat) : List (Cand Rat Nat) :=
  (ds.zipIdx).map (fun (d, i) => ⟨d, start + i⟩)

def parseGroups? (s : String) : Option (List (List Nat)) :=
  if s = "-" then some [] else
  (s.splitOn ";").mapM (fun g => if g = "_" then some [] else (g.splitOn ":").mapM parseNat?)

def stepLine (_ : Unit) (ws : List String) : Unit × String :=
  match ws with
  | ["opt", c, e, rs] =>
    match parseRat? c, parseRat? e, parseList? parseRat? rs with
    | some c, some e, some rs =>
      ((), toString (optimalAlignmentG (improve Gen.Align.cfg.improveStrictLess) c ⟨e, 0⟩ (tag rs 1) none).data)
    | _, _, _ => ((), "bad-op")
  | ["opti", c, e, rs, ei, ris] =>
    match parseRat? c, parseRat? e, parseList? parseRat? rs, parseRat? ei, parseList? parseRat? ris with
    | some c, some e, some rs, some ei, some ris =>
      let k := 1 + rs.length
      ((), toString (optimalAlignmentG (improve Gen.Align.cfg.improveStrictLess) c ⟨e, 0⟩ (tag rs 1) (some (⟨ei, k⟩, tag ris (k + 1)))).data)
    | _, _, _, _, _ => ((), "bad-op")
  | ["tes", c, s, ds] =>
    match parseRat? c, parseRat? s, parseList? parseRat? ds with
    | some c, some s, some ds => ((), toString (testExactSameG (improve Gen.Align.cfg.exactImproveStrictLess) c ⟨s, 0⟩ (tag ds 1)).data)
    | _, _, _ => ((), "bad-op")
  | ["asm", n, gs, cs] =>
    match parseNat? n, parseGroups? gs, parseGroups? cs with
    | some n, some gs, some cs =>
      if gs.length != cs.length then ((), "guard")
      else
        let p := assemble gs cs
        ((), showList toString ((List.range n).map p))
    | _, _, _ => ((), "bad-op")
  | _ => ((), "bad-op")

def main : IO Unit := loop stepLine ()
