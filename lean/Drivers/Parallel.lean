/-
  Driver for C14.  Results are opaque tokens; `x` stands for a failed search (None);
  a successful search yields a list of record tokens a+b+c (possibly empty: `e`).
    collect <n> <i0=tok,i1=tok,...|->        completions in the observed completion order
                                             -> slot contents in index order (`?` = never stored)
    round <tok0,tok1,...|-> <i0,i1,...|->    per-task outcomes (task order) and the observed
                                             completion order -> merge order of the records
    seq <tok0,tok1,...|->                    -> merge order of the sequential reference
-/
import TopSearch.Model.Parallel
import TopSearch.Drv.Util
open TopSearch TopSearch.Drv TopSearch.Parallel

def parseOutcome (s : String) : Option (List String) :=
  if s = "x" then none else if s = "e" then some [] else some (s.splitOn "+")

def parseComp? (s : String) : Option (Nat × String) :=
  match s.splitOn "=" with
  | [i, t] => do some ((← i.toNat?), t)
  | _ => none

def mergeTok (s : List String) (r : String) : List String := s ++ [r]

def stepLine (_ : Unit) (ws : List String) : Unit × String :=
  match ws with
  | ["collect", n, cs] =>
    match parseNat? n, parseList? parseComp? cs with
    | some n, some cs =>
      ((), showList (fun o => match o with | some t => t | none => "?") (collect n cs))
    | _, _ => ((), "bad-op")
  | ["round", toks, order] =>
    match parseList? some toks, parseList? parseNat? order with
    | some toks, some order =>
      let outs := toks.map parseOutcome
      if order.any (fun i => i ≥ toks.length) then ((), "guard") else
      let comps := order.map (fun i => (i, (outs.getD i none)))
      let s := parallelRound mergeTok [] (fun (t : String) => parseOutcome t) toks comps
      ((), showList id s)
    | _, _ => ((), "bad-op")
  | ["seq", toks] =>
    match parseList? some toks with
    | some toks => ((), showList id (sequentialMerge mergeTok [] (fun (t : String) => parseOutcome t) toks))
    | none => ((), "bad-op")
  | _ => ((), "bad-op")

def main : IO Unit := loop stepLine ()
