/-
  Driver for the pair-selection model (C12).  One operation per line:

    kern gen|ref                         which kernels to run (default: the regenerated ones)
    net <n> <energies> <comp> <rows>     a network: energies (n rationals), component id of every
                                         minimum (n naturals, from networkx), the n×n distance matrix
                                         (rows separated by `;`, any order-isomorphic image of the
                                         distances, e.g. squared distances).  Answer: `ok gmin=<argmin>`
                                         or `guard` (wrong sizes / not in generic position)
    argsort <i>                          the model's sorting permutation of row i
    closest <N>                          closest_enumeration            -> sorted set of pairs a:b
    unconnected <N>                      connect_unconnected
    toset <node> <cycles>                connect_to_set
    select <option> <N> <file-pairs>     select_minima (`none` = no branch taken)
    unique <pairs>                       unique_pairs on a literal list
-/
import TopSearch.Model.Pairs
import TopSearch.Gen.Pairs
import TopSearch.Drv.Util
open TopSearch TopSearch.Drv TopSearch.Pairs

structure Net where
  n : Nat := 0
  energies : List Rat := []
  comp : List Nat := []
  rows : List (List Rat) := []
  ok : Bool := false

structure St where
  gen : Bool := true
  net : Net := {}

def Net.d (s : Net) (i j : Nat) : Rat := (s.rows.getD i []).getD j 0
def Net.compF (s : Net) (i : Nat) : Nat := s.comp.getD i 0
def Net.sorted (s : Net) (i : Nat) : List Nat := argsort (s.d i) s.n
def Net.gmin (s : Net) : Nat := argmin s.energies

def St.K (s : St) : Kernels := if s.gen then Gen.Pairs.kernels else Pairs.ref
def St.dispatch (s : St) : String → Option Scheme := if s.gen then Gen.Pairs.dispatch else dispatchRef

def showPairs (l : List Pair) : String := showList (fun p => s!"{p.1}:{p.2}") (canon l)

def parseRows? (s : String) : Option (List (List Rat)) :=
  if s = "-" then some [] else (s.splitOn ";").mapM (parseList? parseRat?)

def stepLine (st : St) (ws : List String) : St × String :=
  match ws with
  | ["kern", "gen"] => ({ st with gen := true }, "ok")
  | ["kern", "ref"] => ({ st with gen := false }, "ok")
  | ["net", n, es, cs, rows] =>
    match parseNat? n, parseList? parseRat? es, parseList? parseNat? cs, parseRows? rows with
    | some n, some es, some cs, some rows =>
      let net : Net := { n := n, energies := es, comp := cs, rows := rows }
      let sized := es.length == n && cs.length == n && rows.length == n &&
        rows.all (fun r => r.length == n)
      if sized && genericB net.d n then
        ({ st with net := { net with ok := true } }, s!"ok gmin={net.gmin}")
      else ({ st with net := {} }, "guard")
    | _, _, _, _ => (st, "bad-op")
  | ["unique", ps] =>
    match parseList? parsePair? ps with
    | some ps => (st, showPairs (uniquePairs st.K ps))
    | none => (st, "bad-op")
  | _ =>
    if !st.net.ok then (st, "guard") else
    let s := st.net
    match ws with
    | ["argsort", i] =>
      match parseNat? i with
      | some i => if i < s.n then (st, showList toString (s.sorted i)) else (st, "guard")
      | none => (st, "bad-op")
    | ["closest", N] =>
      match parseNat? N with
      | some N => (st, showPairs (closestEnumeration st.K s.n N s.sorted))
      | none => (st, "bad-op")
    | ["unconnected", N] =>
      match parseNat? N with
      | some N => (st, showPairs (connectUnconnected st.K s.n s.gmin s.compF s.sorted N))
      | none => (st, "bad-op")
    | ["toset", node, c] =>
      match parseNat? node, parseNat? c with
      | some node, some c =>
        if node < s.n then (st, showPairs (connectToSet st.K s.n s.compF (s.sorted node) node c))
        else (st, "guard")
      | _, _ => (st, "bad-op")
    | ["select", opt, N, file] =>
      match parseNat? N, parseList? parsePair? file with
      | some N, some file =>
        match selectMinima st.K st.dispatch opt s.n s.gmin s.compF s.sorted file N with
        | some l => (st, showPairs l)
        | none => (st, "none")
      | _, _ => (st, "bad-op")
    | _ => (st, "bad-op")

def main : IO Unit := loop stepLine ({} : St)
