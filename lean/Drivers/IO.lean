/-
  Driver for the save/restore model (C06): one operation per line, one canonical answer line.
  Numbers are exact rationals (`n/d`); `round5` is executed as exact round-half-even to five
  decimals (what a correctly rounding `%8.5f` prints for the exact binary value).

    spec gen | spec repaired | spec original
    new
    addmin <coords> <energy>            coords: comma separated rationals
    addts u v <coords> <energy>
    hist <a:b,...>
    rt                                  dump, then read into an empty network
      -> `ok n=.. ts=.. nodes=<label>|<coords>|<energy>;.. edges=<u>|<v>|<coords>|<energy>;.. pl=..`
       | `err:<IndexError|ValueError|KeyError|historyShape|badFile>`
    load <ndmin> <table>                table: rows separated by `;`, fields by `,`, `_` blank row, `-` empty file
      -> `shape=.. elems=.. size0=.. reshape=..`
    at <ndmin> <table> i j              -> `get=.. row=..`
-/
import TopSearch.Model.IO
import TopSearch.Gen.IOSpec
import TopSearch.Drv.Util
open TopSearch TopSearch.Drv TopSearch.Ktn TopSearch.IO

abbrev S := Ktn (Pt Rat)

def pow10_5 : Rat := 100000

/-- exact round-half-even to five decimals -/
def round5 (q : Rat) : Rat :=
  let x := q * pow10_5
  let f := x.floor
  let r := x - (f : Rat)
  let half : Rat := 1 / 2
  let n : Int := if r < half then f else if half < r then f + 1 else (if f % 2 = 0 then f else f + 1)
  (n : Rat) / pow10_5

def showErr : IOErr → String
  | .indexError => "err:IndexError"
  | .valueError => "err:ValueError"
  | .keyError => "err:KeyError"
  | .historyShape => "err:historyShape"
  | .badFile => "err:badFile"

def showRats (l : List Rat) : String := showList showRat l

def showNet (s : S) : String :=
  let nodes := s.nodes.map (fun nd => s!"{nd.label}|{showRats nd.data.coords}|{showRat nd.data.energy}")
  let es := s.edges.map (fun e => (min e.u e.v, max e.u e.v, s!"{showRats e.data.coords}|{showRat e.data.energy}"))
  let es := es.mergeSort (fun a b => a.1 < b.1 || (a.1 == b.1 && a.2.1 ≤ b.2.1))
  let edges := es.map (fun e => s!"{e.1}|{e.2.1}|{e.2.2}")
  let pl := s.pairlist.map (fun p => s!"{p.1}:{p.2}")
  let sl := fun (l : List String) => if l.isEmpty then "-" else ";".intercalate l
  s!"n={s.nMin} ts={s.nTs} nodes={sl nodes} edges={sl edges} pl={showList id pl}"

def parseTable? (w : String) : Option (List (List Rat)) :=
  if w = "-" then some []
  else (w.splitOn ";").mapM (fun r => if r = "_" then some [] else (r.splitOn ",").mapM parseRat?)

def showShape : Arr Rat → String
  | .d0 _ => "()"
  | .d1 xs => s!"({xs.length},)"
  | .d2 rows c => s!"({rows.length},{c})"

def showE {β} (f : β → String) : Except IOErr β → String
  | .ok x => f x
  | .error e => showErr e

structure St where
  spec : ReadSpec
  dspec : DumpSpec
  s : S

def stepLine (st : St) (ws : List String) : St × String :=
  match ws with
  | ["spec", "gen"] => ({ st with spec := Gen.IOSpec.readSpec, dspec := Gen.IOSpec.dumpSpec }, "ok")
  | ["spec", "repaired"] => ({ st with spec := ReadSpec.repaired, dspec := DumpSpec.standard }, "ok")
  | ["spec", "original"] => ({ st with spec := ReadSpec.original, dspec := DumpSpec.standard }, "ok")
  | ["new"] => ({ st with s := {} }, "ok")
  | ["addmin", c, e] =>
    match parseList? parseRat? c, parseRat? e with
    | some c, some e => ({ st with s := st.s.addMin ⟨c, e⟩ }, "ok")
    | _, _ => (st, "bad-op")
  | ["addts", u, v, c, e] =>
    match parseNat? u, parseNat? v, parseList? parseRat? c, parseRat? e with
    | some u, some v, some c, some e =>
      if u < st.s.nMin && v < st.s.nMin then ({ st with s := st.s.addTs true ⟨c, e⟩ u v }, "ok")
      else (st, "guard")
    | _, _, _, _ => (st, "bad-op")
  | ["hist", ps] =>
    match parseList? parsePair? ps with
    | some ps => ({ st with s := { st.s with pairlist := ps } }, "ok")
    | none => (st, "bad-op")
  | ["rt"] =>
    match dumpNetwork round5 st.dspec st.s with
    | .error e => (st, showErr e)
    | .ok files =>
      match readNetwork st.spec files with
      | .error e => (st, showErr e)
      | .ok s' => (st, "ok " ++ showNet s')
  | ["load", nd, t] =>
    match parseNat? nd, parseTable? t with
    | some nd, some t =>
      match loadtxt nd t with
      | .error e => (st, showErr e)
      | .ok a =>
        (st, s!"shape={showShape a} elems={showRats (elems a)} size0={showE toString (size0 a)} reshape={showE showShape (reshape2 a)}")
    | _, _ => (st, "bad-op")
  | ["at", nd, t, i, j] =>
    match parseNat? nd, parseTable? t, parseNat? i, parseNat? j with
    | some nd, some t, some i, some j =>
      match loadtxt nd t with
      | .error e => (st, showErr e)
      | .ok a => (st, s!"get={showE showRat (get2 a i j)} row={showE showRats (getRow a i)}")
    | _, _, _, _ => (st, "bad-op")
  | _ => (st, "bad-op")

def main : IO Unit :=
  loop stepLine { spec := Gen.IOSpec.readSpec, dspec := Gen.IOSpec.dumpSpec, s := {} }
