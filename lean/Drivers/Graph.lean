/-
  Driver for the graph analyses (C18) and the batch selectors (C17).  One operation per line,
  one canonical answer per line.  Numbers are exact rationals `n/d`.  State: the configuration
  records, the current network, the populations (oracle: `np.exp` values), the `np.argsort`
  permutation (oracle, validated: must be a sorting permutation) and the exclusion list.
-/
import TopSearch.Model.Graph
import TopSearch.Model.Batch
import TopSearch.Gen.Graph
import TopSearch.Drv.Util
open TopSearch TopSearch.Drv TopSearch.Graph TopSearch.Batch

structure St where
  g : Cfg := Gen.Graph.cfg
  b : BCfg := Gen.Graph.bcfg
  n : Nat := 0
  en : List Rat := []
  es : List (WEdge Rat) := []
  pops : List (Rat × Rat) := []
  order : List Nat := []
  excl : List Nat := []

def St.energy (s : St) : Nat → Rat := fun i => s.en.getD i 0
def St.net (s : St) : Net Rat := ⟨s.n, s.energy, s.es, s.order⟩

def parseEdge? (s : String) : Option (WEdge Rat) :=
  match s.splitOn ":" with
  | [a, b, e] => do some ⟨← a.toNat?, ← b.toNat?, ← parseRat? e⟩
  | _ => none

def parseRatPair? (s : String) : Option (Rat × Rat) :=
  match s.splitOn ":" with
  | [a, b] => do some (← parseRat? a, ← parseRat? b)
  | _ => none

def noDupPairs : List (WEdge Rat) → Bool
  | [] => true
  | x :: xs => !(xs.any (fun y => joins y x.u x.v)) && noDupPairs xs

def nodupNat : List Nat → Bool
  | [] => true
  | x :: xs => !(xs.contains x) && nodupNat xs

def sortedBy (f : Nat → Rat) : List Nat → Bool
  | a :: b :: rest => decide (f a ≤ f b) && sortedBy f (b :: rest)
  | _ => true

def showNats (l : List Nat) : String := showList toString l
def showOptRat : Option Rat → String
  | none => "none"
  | some q => showRat q

def showLevel (lv : List (List Nat × Option Nat)) : String :=
  ";".intercalate (lv.map (fun (g, p) =>
    ".".intercalate (g.map toString) ++ ">" ++ (match p with | none => "_" | some k => toString k)))

def rEdges (s : St) : List (REdge Rat) :=
  (s.es.zip s.pops).map (fun (x, p) => ⟨x.u, x.v, x.e, p.1, p.2⟩)

def stepLine (s : St) (ws : List String) : St × String :=
  match ws with
  | ["cfg", "gen"] => ({ s with g := Gen.Graph.cfg, b := Gen.Graph.bcfg }, "ok")
  | ["cfg", "std"] => ({ s with g := stdCfg, b := stdBCfg }, "ok")
  | ["net", n, en, es] =>
    match parseNat? n, parseList? parseRat? en, parseList? parseEdge? es with
    | some n, some en, some es =>
      if en.length == n && es.all (fun x => x.u < n && x.v < n) && noDupPairs es then
        ({ s with n := n, en := en, es := es, pops := [], order := [], excl := [] }, "ok")
      else (s, "guard")
    | _, _, _ => (s, "bad-op")
  | ["pops", ps] =>
    match parseList? parseRatPair? ps with
    | some ps => if ps.length == s.es.length then ({ s with pops := ps }, "ok") else (s, "guard")
    | none => (s, "bad-op")
  | ["order", o] =>
    match parseList? parseNat? o with
    | some o =>
      if o.length == s.n && o.all (· < s.n) && nodupNat o && sortedBy s.energy o then
        ({ s with order := o }, "ok")
      else (s, "guard")
    | none => (s, "bad-op")
  | ["excl", e] =>
    match parseList? parseNat? e with
    | some e => ({ s with excl := e }, "ok")
    | none => (s, "bad-op")
  | ["unconn"] =>
    if s.n == 0 then (s, "guard") else (s, showNats (unconnected s.g s.n s.energy s.es))
  | ["conn", i, j] =>
    match parseNat? i, parseNat? j with
    | some i, some j =>
      if i < s.n && j < s.n then (s, showBool (reach s.n (adj s.es) i j)) else (s, "guard")
    | _, _ => (s, "bad-op")
  | ["nbrs", i] =>
    match parseNat? i with
    | some i => if i < s.n then (s, showNats (nbrs s.es i)) else (s, "guard")
    | none => (s, "bad-op")
  | ["height", i, j, mt, er] =>
    match parseNat? i, parseNat? j, parseRat? mt, parseRat? er with
    | some i, some j, some mt, some er =>
      if i < s.n && j < s.n then (s, showOptRat (height s.g s.n s.es i j mt er)) else (s, "guard")
    | _, _, _, _ => (s, "bad-op")
  | ["hier", st, fi, lv] =>
    match parseRat? st, parseRat? fi, parseNat? lv with
    | some st, some fi, some lv =>
      if lv == 0 then (s, "guard")
      else (s, "|".intercalate ((hierarchy s.g.rmCmp s.n s.es st fi lv).map showLevel))
    | _, _, _ => (s, "bad-op")
  | ["rough"] =>
    if s.pops.length != s.es.length then (s, "guard")
    else (s, showRat (roughness s.g s.n s.energy (rEdges s)))
  | ["lowest"] => if s.order.length != s.n then (s, "guard") else (s, showNats (lowest s.order s.excl))
  | ["fill", b] =>
    match parseList? parseNat? b with
    | some b => if s.order.length != s.n then (s, "guard") else (s, showNats (fill s.order s.excl b))
    | none => (s, "bad-op")
  | ["mono"] =>
    if s.order.length != s.n then (s, "guard")
    else (s, showNats (monotonic s.b.monoCmp s.energy s.es s.order s.excl))
  | ["suff", i, j, c] =>
    match parseNat? i, parseNat? j, parseRat? c with
    | some i, some j, some c =>
      if i < s.n && j < s.n then (s, showBool (suffNet s.g s.b s.net c i j)) else (s, "guard")
    | _, _, _ => (s, "bad-op")
  | ["barrier", c, cur] =>
    match parseRat? c, parseList? parseNat? cur with
    | some c, some cur =>
      if s.order.length != s.n || s.n == 0 then (s, "guard")
      else
        let r := barrierSel s.g s.b s.net s.excl c cur
        (s, s!"b={showNats r.1} cur={showNats r.2}")
    | _, _ => (s, "bad-op")
  | ["topo", c] =>
    match parseRat? c with
    | some c =>
      if s.order.length != s.n || s.n == 0 then (s, "guard")
      else (s, showNats (topographical s.g s.b s.net s.excl c))
    | none => (s, "bad-op")
  | ["select", size, scheme, fixed, bc] =>
    match parseNat? size, parseBool? fixed, parseRat? bc with
    | some size, some fixed, some bc =>
      if s.order.length != s.n || s.n == 0 then (s, "guard")
      else match selectBatch s.g s.b s.net size scheme fixed bc s.excl with
        | none => (s, "raise")
        | some b => (s, showNats b)
    | _, _, _ => (s, "bad-op")
  | _ => (s, "bad-op")

def main : IO Unit := loop stepLine ({} : St)
