/-
  Driver for the single-ended search model (C04, C15): one operation per line, one canonical
  answer line per operation.  Numbers are exact rationals `n/d`; vectors are comma separated
  (`-` = empty); Boolean masks are comma separated `0/1`.  Values that stand for `np.sqrt` /
  `np.linalg.norm` come with a relative tolerance `eps` (`0` = exact) and are checked against
  their contract `0 ≤ s ∧ |s*s − x| ≤ eps*|x|`; a violated contract is answered `guard`.
-/
import TopSearch.Model.Hef
import TopSearch.Gen.Hef
import TopSearch.Drv.Util
open TopSearch TopSearch.Drv TopSearch.Hef

abbrev Q := Rat

def pv? (s : String) : Option (List Q) := parseList? parseRat? s
def pb? (s : String) : Option (List Bool) := parseList? parseBool? s
def sv (v : List Q) : String := showList showRat v
def sb (v : List Bool) : String := showList showBool v

def pvSemi? (s : String) : Option (List Q) :=
  if s = "-" then some [] else (s.splitOn ";").mapM parseRat?

/-- probes `e:g1;g2;…` separated by commas -/
def pprobes? (s : String) : Option (List (Q × List Q)) :=
  if s = "-" then some [] else
    (s.splitOn ",").mapM (fun it =>
      match it.splitOn ":" with
      | [e, g] => do some ((← parseRat? e), (← pvSemi? g))
      | _ => none)

/-- matrix rows separated by `|`, entries by commas -/
def pmat? (s : String) : Option (List (List Q)) :=
  if s = "-" then some [] else (s.splitOn "|").mapM pv?

def sqrtOk (eps s x : Q) : Bool :=
  decide (0 ≤ s) && decide (absV (s * s - x) ≤ eps * absV x)

def showReason (r : Option Reason) : String :=
  match r with
  | none => "none"
  | some r => r.str

def parseReason? : String → Option Reason
  | "eigenvector" => some .eigenvector | "eigenvalue" => some .eigenvalue
  | "bounds" => some .bounds | "SDpaths" => some .sdPaths | "pushoff" => some .pushoff
  | "steps" => some .steps | _ => none

def showExcept {β} (f : β → String) : Except String β → String
  | .ok b => "ok " ++ f b
  | .error e => "raise:" ++ e

def showEig : EigAns Q → String
  | .refused r => s!"refused {r.str}"
  | .ok v ev nit => s!"ok {sv v} {showRat ev} {nit}"
  | .nanDirection nit => s!"nan {nit}"

def parseEig? : List String → Option (EigAns Q)
  | ["refused", r] => do some (.refused (← parseReason? r))
  | ["ok", v, ev, nit] => do some (.ok (← pv? v) (← parseRat? ev) (← parseNat? nit))
  | ["nan", nit] => do some (.nanDirection (← parseNat? nit))
  | _ => none

def parseDesc? : List String → Option (Option (List Q × Q))
  | ["none"] => some none
  | [x, e] => do some (some ((← pv? x), (← parseRat? e)))
  | _ => none

def showCall : Call → String
  | .eig => "e" | .step => "u" | .sub => "m" | .conv b => if b then "c1" else "c0"
  | .push => "p" | .desc => "d" | .energy => "f"

def showOutcome : Outcome Q → String
  | .success x e xp ep xm em v fl =>
    s!"success xts={sv x} ets={showRat e} xp={sv xp} ep={showRat ep} xm={sv xm} em={showRat em} v={sv v} flag={showReason fl}"
  | .failure r => s!"failure reason={showReason r}"
  | .abort w => s!"abort {w}"

def showWit : Option (Witness Q) → String
  | none => "-"
  | some w => s!"lower={sb w.lower} upper={sb w.upper} ip={w.push.iPlus} im={w.push.iMinus} pp={sv w.push.plus} pm={sv w.push.minus}"

def emptyIter : IterOra Q :=
  { eig1 := .refused .steps, stepped := [], sub := [], gradConv := [], eig2 := .refused .steps,
    ePush := 0, probeP := [], probeM := [], descP := none, descM := none, eTs := 0 }

structure St where
  cfg : Cfg
  cur : IterOra Q
  iters : List (IterOra Q)

def cfgOf? : String → Option Cfg
  | "gen" => some Gen.Hef.cfg
  | "current" => some Cfg.current
  | "original" => some Cfg.original
  | _ => none

def answer (st : St) (ws : List String) : Option (St × String) :=
  let cfg := st.cfg
  match ws with
  | ["cfg", c] => do let c ← cfgOf? c; some ({ st with cfg := c }, "ok")
  | ["showcfg"] => some (st, reprStr cfg |>.replace "\n" " ")
  | ["conv", g, lo, up, tol] => do
      let r := testConvergence cfg.convAxis cfg.convCmp (← pv? g) (← pb? lo) (← pb? up) (← parseRat? tol)
      some (st, showExcept showBool r)
  | ["valid", v, nan, ev, lo, up] => do
      let r := checkValidEigenvector cfg.validAxis cfg.eigenvalueCmp (← pv? v) (← parseBool? nan)
        (← parseRat? ev) (← pb? lo) (← pb? up)
      some (st, showExcept (fun o => match o with | none => "valid" | some r => r.str) r)
  | ["active", x, lo, up] => do
      let x ← pv? x; let lo ← pv? lo; let up ← pv? up
      some (st, s!"{sb (activeLower x lo)} {sb (activeUpper x up)}")
  | ["dir", small, v, g] => do
      match checkEigenvectorDirection cfg.flipRule (← parseRat? small) (← pv? v) (← pv? g) with
      | none => some (st, "none")
      | some w => some (st, "ok " ++ sv w)
  | ["projz", v, lo, up] => do
      let v ← pv? v; let lo ← pb? lo; let up ← pb? up
      if v.length ≠ lo.length || v.length ≠ up.length then some (st, "guard")
      else some (st, sv (zeroOutward cfg.projLowerCmp cfg.projUpperCmp v lo up))
  | ["proj", eps, norm, v, lo, up] => do
      let eps ← parseRat? eps; let norm ← parseRat? norm
      let v ← pv? v; let lo ← pb? lo; let up ← pb? up
      if v.length ≠ lo.length || v.length ≠ up.length then some (st, "guard")
      else
        let w := zeroOutward cfg.projLowerCmp cfg.projUpperCmp v lo up
        if !(sqrtOk eps norm (dot w w)) then some (st, "guard")
        else match projectOntoBounds cfg.projLowerCmp cfg.projUpperCmp norm v lo up with
          | none => some (st, "nan")
          | some r => some (st, "ok " ++ sv r)
  | ["eigb", lo, up] => do
      let r := updateEigenvectorBounds (← pb? lo) (← pb? up)
      some (st, showList (fun b => match b with | .nonpos => "n" | .nonneg => "p" | .free => "f") r)
  | ["astep", eps, mx, mn, ov, ev, s] => do
      let eps ← parseRat? eps; let mx ← parseRat? mx; let mn ← parseRat? mn
      let ov ← parseRat? ov; let ev ← parseRat? ev; let s ← parseRat? s
      if ev ≠ 0 && !(sqrtOk eps s (1 + 4 * ((ov / ev) * (ov / ev)))) then some (st, "guard")
      else some (st, showRat (analyticStepSize mx mn ov ev s))
  | ["ustep", eps, pos, mx, mn, x, v, g, lo, up, ev, s] => do
      let eps ← parseRat? eps; let pos ← parseRat? pos; let mx ← parseRat? mx; let mn ← parseRat? mn
      let x ← pv? x; let v ← pv? v; let g ← pv? g; let lo ← pv? lo; let up ← pv? up
      let ev ← parseRat? ev; let s ← parseRat? s
      let ov := dot g v
      if ev < 0 && !(sqrtOk eps s (1 + 4 * ((ov / ev) * (ov / ev)))) then some (st, "guard")
      else some (st, sv (takeUphillStep cfg.stepClips pos mx mn x v g lo up ev s))
  | ["lbounds", x, lo, up] => do
      let x ← pv? x; let lo ← pv? lo; let up ← pv? up
      let frac : Q := (cfg.localFracNum : Q) / (cfg.localFracDen : Q)
      let r := getLocalBounds frac x lo up
      some (st, s!"{sv (r.map (·.1))} {sv (r.map (·.2))}")
  | ["push", sdTol, pushoff, eTs, x, v, lo, up, pp, pm] => do
      let pp ← pprobes? pp; let pm ← pprobes? pm
      let p := findPushoff cfg (← parseRat? sdTol) (← parseRat? pushoff) (← parseRat? eTs) (← pv? x) (← pv? v)
        (← pv? lo) (← pv? up) (probeFn pp) (probeFn pm)
      -- the probes the model looked at must have been supplied
      let need (i : Nat) (l : List (Q × List Q)) := if i < cfg.pushIncrements then i < l.length else cfg.pushIncrements ≤ l.length
      if !(need p.iPlus pp) || !(need p.iMinus pm) then some (st, "guard")
      else some (st, s!"{p.iPlus} {p.iMinus} {showBool p.failed} {sv p.plus} {sv p.minus}")
  | ["gse", eps, small, raw, rawEv, nit, nrm, nan, lo, up, g, pnorm, evProj] => do
      let eps ← parseRat? eps
      let raw ← pv? raw; let nrm ← parseRat? nrm; let lo ← pb? lo; let up ← pb? up
      let g ← pv? g; let pnorm ← parseRat? pnorm
      let nan ← parseBool? nan
      if !nan && !(sqrtOk eps nrm (dot raw raw)) then some (st, "guard")
      else
        let r := getSmallestEigenvector cfg (← parseRat? small) raw (← parseRat? rawEv) (← parseNat? nit) nrm
          nan lo up g pnorm (← parseRat? evProj)
        some (st, showExcept showEig r)
  | ["rayleigh", disp, a, b, x, uu] => do
      let disp ← parseRat? disp
      let a ← pmat? a; let b ← pv? b; let x ← pv? x; let uu ← pv? uu
      if disp = 0 || a.length ≠ x.length || a.any (·.length ≠ x.length) || b.length ≠ x.length
          || uu.length ≠ x.length then some (st, "guard")
      else
        let r := rayleighCoded (quadGrad a b) disp x uu
        some (st, s!"{showRat r.1} {sv r.2}")
  -- the oracle answers of one pass of the loop of `run`
  | ["it.begin"] => some ({ st with cur := emptyIter }, "ok")
  | "it.eig1" :: rest => do let e ← parseEig? rest; some ({ st with cur := { st.cur with eig1 := e } }, "ok")
  | "it.eig2" :: rest => do let e ← parseEig? rest; some ({ st with cur := { st.cur with eig2 := e } }, "ok")
  | ["it.stepped", x] => do let x ← pv? x; some ({ st with cur := { st.cur with stepped := x } }, "ok")
  | ["it.sub", x] => do let x ← pv? x; some ({ st with cur := { st.cur with sub := x } }, "ok")
  | ["it.grad", g] => do let g ← pv? g; some ({ st with cur := { st.cur with gradConv := g } }, "ok")
  | ["it.push", e, pp, pm] => do
      let e ← parseRat? e; let pp ← pprobes? pp; let pm ← pprobes? pm
      some ({ st with cur := { st.cur with ePush := e, probeP := pp, probeM := pm } }, "ok")
  | "it.descp" :: rest => do let d ← parseDesc? rest; some ({ st with cur := { st.cur with descP := d } }, "ok")
  | "it.descm" :: rest => do let d ← parseDesc? rest; some ({ st with cur := { st.cur with descM := d } }, "ok")
  | ["it.ets", e] => do let e ← parseRat? e; some ({ st with cur := { st.cur with eTs := e } }, "ok")
  | ["it.end"] => some ({ st with iters := st.iters ++ [st.cur], cur := emptyIter }, "ok")
  | ["run", n, lo, up, tol, sdTol, pushoff, x0] => do
      let env : Env Q := { lo := (← pv? lo), up := (← pv? up), tol := (← parseRat? tol),
                           sdTol := (← parseRat? sdTol), pushoff := (← parseRat? pushoff) }
      let r := run cfg env (← parseNat? n) (← pv? x0) st.iters
      let st' := { st with iters := [], cur := emptyIter }
      match r with
      | none => some (st', "guard")
      | some r =>
        some (st', s!"calls={showList showCall r.calls} out={showOutcome r.out} wit={showWit r.wit}")
  | _ => none

def stepLine (st : St) (ws : List String) : St × String :=
  match answer st ws with
  | some r => r
  | none => (st, "bad-op")

def main : IO Unit := loop stepLine ⟨Gen.Hef.cfg, emptyIter, []⟩
