/-
  Driver for the attempt-history model (C13): one operation per line, one canonical answer line
  per operation.  Payloads are opaque tokens.

    cfg gen | cfg model            kernel / history rules from Gen (current source) or the hand model
    new                            empty store, empty abstract state
    addmin <tok> | addts <tok> u v grow the store directly (building a network)
    hist <a:b,...>                 set the stored history (abstract side: the identities now there)
    check a b                      -> `<allowed> <repeats>`
    round ser|par <pairs> <effs>   pairs `a:b,...`; effs one per pair separated by `;`,
                                   each `-` or `m.<tok>` / `t.<tok>.<u>.<v>` joined by `+`
    rmmin k | rmminima ks | reset | dumpread
    grow <eff>
    merge <eff> <otherhist> <phi>  phi: `j` or `x` (unmatched) per minimum of the other network
  Answer of a state-changing operation:
    n=.. ts=.. edges=.. pl=.. ar=.. [searched=a:b:r,...]
  where `ar` is the rendering of the identity-level history (must equal `pl`).
-/
import TopSearch.Model.History
import TopSearch.Gen.History
import TopSearch.Gen.Ktn
import TopSearch.Drv.Util
open TopSearch TopSearch.Drv TopSearch.Ktn TopSearch.History

abbrev S := Ktn String

structure St where
  kern : Kernel
  cfg : History.Cfg
  kc : Ktn.Cfg
  s : S
  a : Abs

def showPairs (l : List (Nat × Nat)) : String := showList (fun p => s!"{p.1}:{p.2}") l

def showState (st : St) : String :=
  let es := st.s.edges.map (fun e => (min e.u e.v, max e.u e.v))
  let es := es.mergeSort (fun a b => a.1 < b.1 || (a.1 == b.1 && a.2 ≤ b.2))
  s!"n={st.s.nMin} ts={st.s.nTs} edges={showPairs es} pl={showPairs st.s.pairlist} ar={showPairs (render st.a.ids st.a.hist)}"

def parseEffOp? (w : String) : Option (Op String) :=
  match w.splitOn "." with
  | ["m", t] => some (.addMin t)
  | ["t", t, u, v] => do some (.addTs t (← parseNat? u) (← parseNat? v))
  | _ => none

def parseEff? (w : String) : Option (List (Op String)) :=
  if w = "-" then some [] else (w.splitOn "+").mapM parseEffOp?

def parsePhi? (w : String) : Option (List (Option Nat)) :=
  parseList? (fun x => if x = "x" then some none else (parseNat? x).map some) w

def doOp (st : St) (op : HOp String) (extra : String := "") : St × String :=
  if op.valid st.s then
    let s' := hstep st.kern st.cfg st.kc st.s op
    let a' := astep st.kern st.cfg st.kc st.s st.a op
    let st' := { st with s := s', a := a' }
    (st', showState st' ++ extra)
  else (st, "guard")

def stepLine (st : St) (ws : List String) : St × String :=
  match ws with
  | ["cfg", "gen"] =>
    ({ st with kern := Gen.History.checkKernel, cfg := Gen.History.cfg, kc := Gen.Ktn.cfg }, "ok")
  | ["cfg", "model"] =>
    ({ st with kern := History.checkKernel, cfg := History.Cfg.repaired, kc := ⟨true, true⟩ }, "ok")
  | ["new"] => ({ st with s := {}, a := {} }, "ok")
  | ["addmin", t] => doOp st (.grow [.addMin t])
  | ["addts", t, u, v] =>
    match parseNat? u, parseNat? v with
    | some u, some v =>
      if u < st.s.nMin && v < st.s.nMin then doOp st (.grow [.addTs t u v]) else (st, "guard")
    | _, _ => (st, "bad-op")
  | ["hist", ps] =>
    match parseList? parsePair? ps with
    | some ps =>
      if pairsValid st.s ps then
        let st' := { st with s := { st.s with pairlist := ps },
                             a := { st.a with hist := ps.map (fun p => (st.a.idAt p.1, st.a.idAt p.2)) } }
        (st', showState st')
      else (st, "guard")
    | none => (st, "bad-op")
  | ["check", a, b] =>
    match parseNat? a, parseNat? b with
    | some a, some b =>
      let c := checkPair st.kern st.s a b
      (st, s!"{showBool c.1} {c.2}")
    | _, _ => (st, "bad-op")
  | ["round", mode, ps, effs] =>
    match parseList? parsePair? ps, (effs.splitOn ";").mapM parseEff? with
    | some ps, some effs =>
      let effs := if ps.isEmpty then [] else effs
      if mode ≠ "ser" ∧ mode ≠ "par" then (st, "bad-op")
      else if ps.length ≠ effs.length then (st, "bad-op")
      else
        let pairs := ps.zip effs
        let par := mode = "par"
        let calls := (round st.kern st.cfg st.kc par st.s pairs).2
        doOp st (.round par pairs)
          (" searched=" ++ showList (fun (c : Call) => s!"{c.1}:{c.2.1}:{c.2.2}") calls)
    | _, _ => (st, "bad-op")
  | ["rmmin", k] =>
    match parseNat? k with
    | some k => doOp st (.removeMin k)
    | none => (st, "bad-op")
  | ["rmminima", ks] =>
    match parseList? parseNat? ks with
    | some ks => doOp st (.removeMinima ks)
    | none => (st, "bad-op")
  | ["reset"] => doOp st .reset
  | ["dumpread"] => doOp st .dumpRead
  | ["grow", eff] =>
    match parseEff? eff with
    | some eff => doOp st (.grow eff)
    | none => (st, "bad-op")
  | ["merge", eff, other, phi] =>
    match parseEff? eff, parseList? parsePair? other, parsePhi? phi with
    | some eff, some other, some phi => doOp st (.addNetwork eff other phi)
    | _, _, _ => (st, "bad-op")
  | _ => (st, "bad-op")

def main : IO Unit :=
  loop stepLine { kern := Gen.History.checkKernel, cfg := Gen.History.cfg, kc := Gen.Ktn.cfg,
                  s := {}, a := {} }
