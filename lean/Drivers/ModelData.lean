/-
  Driver for the dataset model (C19): one operation per line, one canonical state line per
  answer.  Runs the generic definitions of Model/ModelData.lean at `Rat`; numbers travel as exact
  ratios `n/d`.  Every standard deviation is an *input* (the model never takes a square root):
  the harness sends the value numpy computed (as the exact rational of that float) and checks it
  against the exact variance this driver prints (`chk=`).

    cfg gen | cfg <retained|pairs1|pairs0> <lt|le> <delT> <delR>
    new <d> <rows> <resp>            rows = r;r;…  r = x,x,…
    reload <d> <rows> <resp>         read_data on the existing object
    append <rows> <resp>   subset <features>   dedup <cutoff>
    std_resp <σ> | unstd_resp | norm_resp | unnorm_resp
    std_train <σs> | unstd_train | norm_train | unnorm_train
    gp <stdT> <stdR> <σs> <σ>        prepare_training_data with the two flags
    add <rows> <resp> <σs> <σ>       GaussianProcess.add_data
    lowest <σ>                       GaussianProcess.lowest_point
    orig                             the dataset in original units (stored statistics undone)
-/
import TopSearch.Model.ModelData
import TopSearch.Gen.ModelData
import TopSearch.Drv.Util
open TopSearch TopSearch.Drv TopSearch.ModelData

abbrev Q := Rat

structure St where
  cfg : DedupCfg
  gp : Option (GP Q)

def showRow (r : List Q) : String := showList showRat r
def showTable (t : List (List Q)) : String :=
  if t.isEmpty then "-" else ";".intercalate (t.map showRow)

def parseTable? (s : String) : Option (List (List Q)) :=
  if s = "-" then some [] else (s.splitOn ";").mapM (parseList? parseRat?)

def showData (s : Data Q) : String :=
  let rp := s.respProps
  let tp := s.trainProps
  s!"n={s.nPoints} d={s.nDims} T={showTable s.training} R={showRow s.response} " ++
  s!"rp={showRow [rp.std, rp.mean, rp.min, rp.max]} " ++
  s!"tp={showTable [tp.std, tp.mean, tp.min, tp.max]}"

def rect (d : Nat) (t : List (List Q)) : Bool := t.all (fun r => r.length == d)

/-- the invariant the operations rely on (and preserve): counts agree with the arrays -/
def aligned (s : Data Q) : Bool :=
  s.nPoints == s.training.length && s.training.length == s.response.length &&
  rect s.nDims s.training

def nz (l : List Q) : Bool := l.all (· != 0)

def withData (st : St) (guard : Data Q → Bool) (f : Data Q → Data Q) (pre : Data Q → String := fun _ => "") :
    St × String :=
  match st.gp with
  | none => (st, "guard")
  | some g =>
    if aligned g.data && guard g.data then
      let d' := f g.data
      ({ st with gp := some { g with data := d' } }, pre g.data ++ showData d')
    else (st, "guard")

def parseScan? : String → Option Scan
  | "retained" => some .retained
  | "pairs1" => some (.pairs true)
  | "pairs0" => some (.pairs false)
  | _ => none

def parseCmp? : String → Option Cmp
  | "lt" => some .lt
  | "le" => some .le
  | _ => none

def stepLine (st : St) (ws : List String) : St × String :=
  match ws with
  | ["cfg", "gen"] => ({ st with cfg := Gen.ModelData.dedup }, "ok")
  | ["cfg", a, b, c, d] =>
    match parseScan? a, parseCmp? b, parseBool? c, parseBool? d with
    | some a, some b, some c, some d => ({ st with cfg := ⟨a, b, c, d, true⟩ }, "ok")
    | _, _, _, _ => (st, "bad-op")
  | ["new", d, t, r] =>
    match parseNat? d, parseTable? t, parseList? parseRat? r with
    | some d, some t, some r =>
      if d ≥ 1 && t.length ≥ 1 && t.length == r.length && rect d t then
        let s := Data.init t r d
        ({ st with gp := some ⟨s, false, false, false⟩ }, showData s)
      else (st, "guard")
    | _, _, _ => (st, "bad-op")
  | ["reload", d, t, r] =>
    match parseNat? d, parseTable? t, parseList? parseRat? r with
    | some d, some t, some r =>
      match st.gp with
      | none => (st, "guard")
      | some g =>
        if d ≥ 1 && t.length ≥ 1 && t.length == r.length && rect d t then
          let s := g.data.readData Gen.ModelData.counts t r d
          ({ st with gp := some { g with data := s } }, showData s)
        else (st, "guard")
    | _, _, _ => (st, "bad-op")
  | ["append", t, r] =>
    match parseTable? t, parseList? parseRat? r with
    | some t, some r =>
      withData st (fun s => t.length == r.length && rect s.nDims t) (fun s => s.appendData t r)
    | _, _ => (st, "bad-op")
  | ["subset", fs] =>
    match parseList? parseNat? fs with
    | some fs => withData st (fun s => fs.all (· < s.nDims)) (fun s => s.featureSubset fs)
    | none => (st, "bad-op")
  | ["dedup", c] =>
    match parseRat? c with
    | some c => withData st (fun _ => true) (fun s => s.removeDuplicates st.cfg c)
    | none => (st, "bad-op")
  | ["std_resp", σ] =>
    match parseRat? σ with
    | some σ => withData st (fun _ => σ != 0) (fun s => s.standardiseResponse σ)
        (fun s => s!"chk={showRat (var s.response)} ")
    | none => (st, "bad-op")
  | ["unstd_resp"] => withData st (fun _ => true) (fun s => s.unstandardiseResponse)
  | ["norm_resp"] =>
    withData st (fun s => minList s.response != maxList s.response) (fun s => s.normaliseResponse)
  | ["unnorm_resp"] => withData st (fun _ => true) (fun s => s.unnormaliseResponse)
  | ["std_train", σs] =>
    match parseList? parseRat? σs with
    | some σs => withData st (fun s => σs.length == s.nDims && nz σs)
        (fun s => s.standardiseTraining σs)
        (fun s => s!"chk={showRow (colStat var s.nDims s.training)} ")
    | none => (st, "bad-op")
  | ["unstd_train"] =>
    withData st (fun s => s.trainProps.std.length == s.nDims && s.trainProps.mean.length == s.nDims)
      (fun s => s.unstandardiseTraining)
  | ["norm_train"] =>
    withData st (fun s => (List.range s.nDims).all
        (fun j => minList (column j s.training) != maxList (column j s.training)))
      (fun s => s.normaliseTraining)
  | ["unnorm_train"] =>
    withData st (fun s => s.trainProps.min.length == s.nDims && s.trainProps.max.length == s.nDims)
      (fun s => s.unnormaliseTraining)
  | ["gp", a, b, σs, σ] =>
    match st.gp, parseBool? a, parseBool? b, parseList? parseRat? σs, parseRat? σ with
    | some g, some a, some b, some σs, some σ =>
      let s := g.data
      if aligned s && (!a || (σs.length == s.nDims && nz σs)) && (!b || σ != 0) then
        let g' := GP.create Gen.ModelData.prepareSteps s a b false ⟨[], [], σs, σ, 0⟩
        ({ st with gp := some g' },
          s!"chk={showRat (var s.response)}|{showRow (colStat var s.nDims s.training)} " ++
          showData g'.data)
      else (st, "guard")
    | none, some _, some _, some _, some _ => (st, "guard")
    | _, _, _, _, _ => (st, "bad-op")
  | ["add", t, r, σs, σ] =>
    match st.gp, parseTable? t, parseList? parseRat? r, parseList? parseRat? σs, parseRat? σ with
    | some g, some t, some r, some σs, some σ =>
      let s := g.data
      if aligned s && t.length == r.length && rect s.nDims t &&
          (!g.stdT || (σs.length == s.nDims && nz σs)) && (!g.stdR || σ != 0) then
        let g' := g.addData Gen.ModelData.addDataSteps ⟨t, r, σs, σ, 0⟩
        ({ st with gp := some g' },
          s!"chk={showRat (var g'.origR)}|{showRow (colStat var s.nDims g'.origT)} " ++
          showData g'.data)
      else (st, "guard")
    | none, some _, some _, some _, some _ => (st, "guard")
    | _, _, _, _, _ => (st, "bad-op")
  | ["lowest", σ] =>
    match st.gp, parseRat? σ with
    | some g, some σ =>
      if aligned g.data && g.data.nPoints ≥ 1 && (!g.stdR || σ != 0) then
        let (g', low) := g.lowestPoint Gen.ModelData.lowestSteps ⟨[], [], [], σ, 0⟩
        ({ st with gp := some g' },
          s!"low={match low with | some x => showRat x | none => "none"} " ++
          s!"chk={showRat (var g'.origR)} " ++ showData g'.data)
      else (st, "guard")
    | none, some _ => (st, "guard")
    | _, _ => (st, "bad-op")
  | ["orig"] =>
    match st.gp with
    | some g => (st, s!"oT={showTable g.origT} oR={showRow g.origR}")
    | none => (st, "guard")
  | _ => (st, "bad-op")

def main : IO Unit := loop stepLine ⟨Gen.ModelData.dedup, none⟩
