-- Root of the `TopSearch` library (models, generated kernels, lemmas, property theorems).
import TopSearch.Py.Expr
import TopSearch.Drv.Util
import TopSearch.Audit
import TopSearch.Model.Ktn
import TopSearch.Gen.Ktn
import TopSearch.Lemmas.Ktn
import TopSearch.Props.C02
import TopSearch.Model.Surfaces
import TopSearch.Gen.Surfaces
import TopSearch.Lemmas.Deriv
import TopSearch.Props.C16
