#!/bin/sh
# ./run_all.sh [quick|thorough] [seed]  — every check in sequence; prints one summary line per property
cd "$(dirname "$0")" || exit 2
tier=${1:-quick}; seed=${2:-0}; rc=0
for i in 01 02 03 04 05 06 07 08 09 10 11 12 13 14 15 16 17 18 19 20; do
  VERIF_SEED=$seed ./check C$i --tier $tier > /tmp/run_all_C$i.log 2>&1; r=$?
  [ $r -ne 0 ] && rc=1
  echo "exit=$r $(grep -c '^VIOLATION' /tmp/run_all_C$i.log) violation-lines; $(tail -1 /tmp/run_all_C$i.log)"
done
exit $rc
